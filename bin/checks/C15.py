"""C15 — RESP requests parse exactly under any fragmentation / pipelining (correspondence part)."""
import vlib

OPTION_WORDS = ["NX", "XX", "LT", "GT", "MATCH", "COUNT", "TYPE", "EX", "EXAT", "PX", "PXAT", "GET", "KEEPTTL", "CH", "INCR",
                "WITHSCORES", "LIMIT", "BYSCORE", "BYLEX", "REV", "WEIGHTS", "AGGREGATE", "BYTE", "BIT", "KM", "M", "FT", "MI",
                "ASC", "DESC", "ANY", "WITHDIST", "WITHCOORD", "WITHHASH"]


def enc(args):
    out = b"*%d\r\n" % len(args)
    for a in args:
        out += b"$%d\r\n%s\r\n" % (len(a), a)
    return out


def rand_arg(rng):
    x = rng.random()
    if x < 0.15:
        return b""
    if x < 0.30:
        w = rng.choice(OPTION_WORDS).encode()
        y = rng.random()
        if y < 0.4:
            return w
        if y < 0.6:
            return w.lower()
        if y < 0.75:
            return bytes(c ^ 0x20 if rng.random() < 0.5 else c for c in w)
        if y < 0.85:
            return w + rng.choice([b"X", b" ", b"\r\n", b"\x00", b"\xc3\xa9"])     # a word only as a substring
        return rng.choice([b"\xc5\x8e", b"n\xcc\x83x", b"\xffNX", b"N\xc3\x98"])      # non-ASCII near option words
    if x < 0.45:
        return bytes(rng.choice(b"\r\n\x00*$'\" \\abc1") for _ in range(rng.randrange(1, 8)))
    if x < 0.55:
        return bytes(rng.randrange(256) for _ in range(rng.randrange(1, 20)))
    if x < 0.60:
        return bytes([rng.randrange(97, 123)]) * rng.choice([4095, 4096, 4097, 5000, 9000])
    return rng.choice([b"k", b"key", b"value", b"0", b"-1", b"10"])


def rand_cmd(rng):
    name = rng.choice([b"SET", b"get", b"ZaDd", b"PING", b"sCaN", b"x", b"", b"\xc3\xa9cho", b"Set\x00", b"EXPIRE"])
    return [name] + [rand_arg(rng) for _ in range(rng.randrange(0, 6))]


def cuts(stream, points):
    pts = sorted(set(p for p in points if 0 < p < len(stream)))
    chunks, last = [], 0
    for p in pts:
        chunks.append(stream[last:p]); last = p
    chunks.append(stream[last:])
    return chunks


def frag_line(chunks):
    toks = []
    for c in chunks:
        if len(c) > 200 and len(set(c)) == 1:
            toks.append("r%dx%02x" % (len(c), c[0]))
        else:
            toks.append(c.hex() if c else "-")
    return "frag " + " ".join(toks)


def malformed(rng):
    base = enc(rand_cmd(rng))
    x = rng.random()
    if x < 0.25:                                                   # corrupt a length / count field
        variants = [b"*-1\r\n", b"*0\r\n", b"*1000000000\r\n$1\r\na\r\n", b"*1\r\n$-1\r\n", b"*1\r\n$-5\r\nabc\r\n",
                    b"*1\r\n$99999999999999\r\n", b"*1\r\n$536870913\r\n", b"*2\r\n$3\r\nGET\r\n", b"*1\r\n$abc\r\n",
                    b"*x\r\n", b"*1\r\n+OK\r\n", b"*1\r\n$3\r\nab", b"*1\r\n$3\r\nabcd\r\n", b"*1\n\n$1\n\na\n\n", b"*\r\n",
                    b"*1\r\n$1\r\na", b"*1\r\n$1\r\naXY\n", b"*9223372036854775807\r\n", b"*1\r\n$9223372036854775807\r\n"]
        return rng.choice(variants) + (base if rng.random() < 0.5 else b"")
    if x < 0.5:                                                    # inline commands
        variants = [b"PING\r\n", b"ping a b\r\n", b"SET k 'a b' c\r\n", b'SET "k k" v\r\n', b" \r\n", b"\r\n", b"\n", b"GET k\n",
                    b"SET k a\\ b\r\n", b"ECHO '\r\n", b"x", b"x y", b"NX nx COUNT 5\r\n", b"\t\tPING\r\n", b"SET  k\t v \r\n",
                    b"'abc' d\r\n", b"a\rb c\r\n", b"a \\", b"GET k", b"\\ \r\n",
                    b'RPUSH k first "" tail\r\n', b'"" a\r\n', b"'' a\r\n", b'SET k ""\r\n', b'""\r\n', b'a "" \r\n', b'"" ""\r\n', b'x "\\"" y\r\n', b'"a""b"\r\n']
        return rng.choice(variants) + (base if rng.random() < 0.5 else b"")
    if x < 0.75:                                                   # flip / delete / insert a byte
        b = bytearray(base)
        for _ in range(rng.randrange(1, 3)):
            if not b:
                break
            i = rng.randrange(len(b))
            y = rng.random()
            if y < 0.4:
                b[i] = rng.choice(b"\r\n*$-0123456789\x00\xff")
            elif y < 0.7:
                del b[i]
            else:
                b.insert(i, rng.choice(b"\r\n*$-9"))
        return bytes(b)
    return bytes(rng.randrange(256) for _ in range(rng.randrange(0, 30)))          # noise


def run(ctx, proofs_ok):
    rng = ctx.rng
    quick = ctx.tier == "quick"
    h = vlib.build_harness(ctx)
    vlib.correspond_stateless(ctx, h, vlib.corpus_ops("C15"), "corpus", "corpus: witnesses of repaired defects and past failures")
    ops = []
    # 1. every single cut and every double cut of short pipelines
    for _ in range(6 if quick else 60):
        stream = b"".join(enc(rand_cmd(rng)[:rng.randrange(1, 4)]) for _ in range(rng.randrange(1, 3)))[:70]
        stream = enc([b"sEt", b"k\r\n", b"", b"nx"])[:64] if rng.random() < 0.2 else stream
        ops.append(frag_line([stream]))
        for i in range(1, len(stream)):
            ops.append(frag_line(cuts(stream, [i])))
        if not quick or len(stream) < 40:
            for i in range(1, len(stream)):
                for j in range(i + 1, len(stream), 3 if quick else 1):
                    ops.append(frag_line(cuts(stream, [i, j])))
    vlib.correspond_stateless(ctx, h, ops, "cuts", "exhaustive single cuts and double cuts of short pipelines")
    ctx.log("cuts done", len(ops))
    # 2. random pipelines with random fragmentation (incl. byte-by-byte and arguments beyond the 4096-byte buffer)
    ops = []
    for _ in range(400 if quick else 6000):
        k = rng.choice([1, 1, 2, 3, 5, 20])
        stream = b"".join(enc(rand_cmd(rng)) for _ in range(k))
        mode = rng.random()
        if mode < 0.2 and len(stream) < 400:
            chunks = [stream[i:i + 1] for i in range(len(stream))]
        elif mode < 0.4:
            chunks = [stream]
        else:
            chunks = cuts(stream, [rng.randrange(1, max(2, len(stream))) for _ in range(rng.randrange(1, 8))])
        ops.append(frag_line(chunks))
    ops.append(frag_line([b"".join(enc([b"PING", b"%d" % i]) for i in range(1000))]))                 # depth 1000, one read
    ops.append(frag_line(cuts(b"".join(enc([b"ECHO", b"x" * (i % 7)]) for i in range(1000)), range(0, 30000, 17))))
    vlib.correspond_stateless(ctx, h, ops, "pipes", "random pipelines x random fragmentation, option words in every spelling")
    ctx.log("pipelines done")
    # 3. malformed / inline / noise streams under fragmentation
    ops = []
    for _ in range(1500 if quick else 30000):
        stream = malformed(rng)
        chunks = cuts(stream, [rng.randrange(1, max(2, len(stream))) for _ in range(rng.randrange(0, 4))])
        ops.append(frag_line(chunks))
    for i in range(0, len(ops), 10000):
        vlib.correspond_stateless(ctx, h, ops[i:i + 10000], f"malformed{i//10000}", "malformed frames, inline commands, noise")

    # the server ACTS on exactly those arguments: also when the command is queued by MULTI and runs
    # later, after other commands have been parsed on the same connection
    from checks import apicheck
    apicheck.run_resp_streams(ctx, [
        {"label": "commands queued in MULTI run with exactly the arguments they were sent with", "fams": ["strings", "lists", "hashes", "sets", "tx", "tx"],
         "n": (800, 4000), "count": (2, 10), "conns": 2},
    ], corpus=False)
