"""C11 — Close then Open restores exactly the pre-close keyspace (correspondence part).
Besides model ≈ implementation, vlib.correspond_stream checks on the implementation alone that the
logical keyspace printed before Close equals the one printed after reopening."""
from checks import apicheck
from gen_api import fbits


def shapes(backend_open):
    """key names of every length 0..12 and values around the length-prefix boundaries, all five types"""
    ops = [backend_open]
    for n in list(range(0, 13)) + [63, 64, 65, 300]:
        name = ("6b" * n) or "-"
        ops.append(f"api Set {name} r{n}x61 0")
    for L in (0, 1, 63, 64, 65, 8191, 8192, 8193):
        ops += [f"api RPush 6c{L:04x} r{L}x62 - r{L}x63", f"api HSet 68{L:04x} r{L}x64 r{L}x65", f"api SAdd 73{L:04x} r{L}x66 -",
                f"api ZAdd 7a{L:04x} r{L}x67 {fbits(1.5)}", f"api ZAdd 7a{L:04x} - {fbits(-0.0)}"]
    ops += ["api ExpireAt 6b6b 4102444800000", "api ExpireAt 6b6b6b 1000", "api Del 6b", "api Rename 6b6b6b6b 72656e", "api LPop 6c0001 3",
            "api Set 730040 76 0", "api Del 730040", "api SAdd 730040 6e6577"]
    for _ in range(3):
        ops += ["gc", "ldump", "close", "reopen", "ldump", "api Get 6b6b6b6b6b", "api LRange 6c2000 0 -1", "api HGetAll 682000", "api ZRangeWithScores 7a0040 1 10",
                "api Del 6b6b6b6b6b6b", "api Append 6b6b6b6b6b 7a", "api ExpireAt 6b6b6b6b6b6b6b 4102444800999"]
    ops += ["ldump", "close", "reopen", "ldump", "dump"]
    return ops


def edge_values(open_line):
    """empty and one-byte values of every type, evicted (three eviction passes), read back, closed,
    reopened and read back again: a value that is empty must stay empty (not absent, not null)"""
    from gen_api import hx
    e = "-"
    ops = [open_line,
           f"api Set 7330 {e} 0", f"api Set 7331 00 0", f"api Set 7332 0d0a 0", f"api Append 7333 {e}", f"api SetRange 7334 0 {e}",
           f"api RPush 6c30 {e}", f"api RPush 6c31 {e} {e} 00", f"api HSet 6830 {e} {e}", f"api HSet 6831 66 {e}", f"api HSet 6832 {e} 76",
           f"api SAdd 7430 {e}", f"api SAdd 7431 {e} 00", f"api ZAdd 7a30 {e} 0000000000000000", f"api ZAdd 7a31 {e} 8000000000000000"]
    reads = ["api Get 7330", "api Get 7331", "api Get 7332", "api Get 7333", "api Get 7334", "api StrLen 7330", "api Exists 7330 7333 7334", "api GetSet 7330 -",
             "api Append 7330 -", "api Get 7330", "api LRange 6c30 0 -1", "api LRange 6c31 0 -1", "api HGetAll 6830", "api HGet 6831 66", "api HGet 6832 -", "api HStrLen 6831 66",
             "api SMembers 7430", "api SMembers 7431", "api SIsMember 7430 -", "api ZScore 7a30 -", "api ZRangeWithScores 7a31 0 -1", "api Type 7330", "dump"]
    ops += reads + ["gc", "gc", "gc"] + reads + ["ldump", "close", "reopen", "ldump"] + reads + ["gc", "gc", "gc"] + reads
    return ops


def flush_all(open_line):
    """FLUSHALL on a store whose keys are already in the storage backend: for 1, 2 and 7 stored keys of every type, with and
    without deadlines, written by an earlier session or in this one: SAVE, Clear, a fresh key, Close + Open twice -
    nothing that was flushed may come back, whatever its place in the backend's key order"""
    ops = [open_line]
    sets = [["api Set 6b31 76 0"],
            ["api Set 6131 76 0", "api RPush 7a7a 61 62"],
            ["api Set 6131 76 0", "api RPush 6c31 61 62", "api HSet 6831 66 76", "api SAdd 7331 6d", f"api ZAdd 7a31 6d {fbits(1.0)}", "api Set 7a7a7a 7a 0", "api Set 73657373 78 0",
             "api ExpireAt 73657373 4102444800000", "api ExpireAt 6131 4102444900000"]]
    for n, writes in enumerate(sets):
        for earlier_session in (False, True):
            ops += writes + ["flush"]
            if earlier_session:
                ops += ["ldump", "close", "reopen", "ldump"]
            ops += ["api Clear", "dump", f"api Set 66726573683{n} 31 0", "flush"]
            for _ in range(2):
                ops += ["ldump", "close", "reopen", "ldump", "api Keys 2a", "api Get 6131", "api Get 6b31", "api Exists 7a7a 7a7a7a 73657373 6c31 6831 7331 7a31", "dump"]
            ops += ["api Clear", "ldump", "close", "reopen", "ldump", "dump"]
    return ops


def run(ctx, proofs_ok):
    import shutil
    from checks import cleanwrite
    pdir = f"{ctx.work}/pebble-shapes"
    shutil.rmtree(pdir, ignore_errors=True)
    # rejected backend writes during eviction passes and flushes too: what a failed write leaves behind (a record wrongly
    # marked clean, a stale address) only shows at the next Close + Open
    ev = {"reopen": 0.06, "gc": 0.06, "flush": 0.03, "api Clear": 0.004, "fail": 0.03}
    apicheck.run_streams(ctx, [
        {"label": "all families with frequent close/reopen cycles (memory backend object, deterministic clock, expiry)",
         "fams": ["exp", "str", "key", "list", "hash", "set", "zset"], "n": (2500, 6000), "count": (3, 30), "ft": True,
         "events": dict(ev, sleep=0.05)},
        {"label": "all families with frequent close/reopen cycles (Pebble directory)",
         "fams": ["exp", "str", "key", "list", "hash", "set", "zset"], "n": (1200, 4000), "count": (2, 12), "backend": "pebble", "events": ev},
    ], extra=[("key names of length 0..12 and element sizes around every prefix boundary, 3 reopen cycles (memory)", shapes("open a mem"), False),
              ("the same on Pebble", shapes(f"open a pebble {pdir}"), False),
              ("empty and one-byte values of every type through eviction, reload and reopen (memory)", edge_values("open a mem"), False),
              ("empty and one-byte values of every type through eviction, reload and reopen (Pebble)", edge_values(f"open a pebble {pdir}-edge"), False),
              ("FLUSHALL on keys that are already stored, then Close + Open (memory)", flush_all("open a mem"), False),
              ("FLUSHALL on keys that are already stored, then Close + Open (Pebble)", flush_all(f"open a pebble {pdir}-fa"), False),
              ("writers: every writing method once on clean, just reloaded keys (own keys each; two-key commands with clean source and destination), then Close + Open (memory)", cleanwrite.table("open a mem", relative=True), True),
              ("writers-pebble: the same on Pebble", cleanwrite.table(f"open a pebble {pdir}-cw"), False),
              ("writers-deadline: the same with deadlines on every key (Pebble)", cleanwrite.table(f"open a pebble {pdir}-cwd", with_deadline=True), False)])
    shutil.rmtree(pdir + "-cw", ignore_errors=True)
    shutil.rmtree(pdir + "-cwd", ignore_errors=True)
    shutil.rmtree(pdir + "-edge", ignore_errors=True)
    shutil.rmtree(pdir + "-fa", ignore_errors=True)
    shutil.rmtree(pdir, ignore_errors=True)
