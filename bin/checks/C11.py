"""C11 — Close then Open restores exactly the pre-close keyspace (correspondence part).
Besides model ≈ implementation, vlib.correspond_stream checks on the implementation alone that the
logical keyspace printed before Close equals the one printed after reopening."""
from checks import apicheck
from gen_api import fbits


def shapes(backend_open):
    """key names of every length 0..12 and values around the length-prefix boundaries, all five types"""
    ops = [backend_open]
    for n in list(range(0, 13)) + [63, 64, 65, 300]:
        name = ("6b" * n) or "-"
        ops.append(f"api Set {name} r{n}x61 0")
    for L in (0, 1, 63, 64, 65, 8191, 8192, 8193):
        ops += [f"api RPush 6c{L:04x} r{L}x62 - r{L}x63", f"api HSet 68{L:04x} r{L}x64 r{L}x65", f"api SAdd 73{L:04x} r{L}x66 -",
                f"api ZAdd 7a{L:04x} r{L}x67 {fbits(1.5)}", f"api ZAdd 7a{L:04x} - {fbits(-0.0)}"]
    ops += ["api ExpireAt 6b6b 4102444800000", "api ExpireAt 6b6b6b 1000", "api Del 6b", "api Rename 6b6b6b6b 72656e", "api LPop 6c0001 3",
            "api Set 730040 76 0", "api Del 730040", "api SAdd 730040 6e6577"]
    for _ in range(3):
        ops += ["gc", "ldump", "close", "reopen", "ldump", "api Get 6b6b6b6b6b", "api LRange 6c2000 0 -1", "api HGetAll 682000", "api ZRangeWithScores 7a0040 1 10",
                "api Del 6b6b6b6b6b6b", "api Append 6b6b6b6b6b 7a", "api ExpireAt 6b6b6b6b6b6b6b 4102444800999"]
    ops += ["ldump", "close", "reopen", "ldump", "dump"]
    return ops


def run(ctx, proofs_ok):
    import shutil
    pdir = f"{ctx.work}/pebble-shapes"
    shutil.rmtree(pdir, ignore_errors=True)
    ev = {"reopen": 0.06, "gc": 0.06, "flush": 0.03}
    apicheck.run_streams(ctx, [
        {"label": "all families with frequent close/reopen cycles (memory backend object, deterministic clock, expiry)",
         "fams": ["exp", "str", "key", "list", "hash", "set", "zset"], "n": (2500, 6000), "count": (3, 30), "ft": True,
         "events": dict(ev, sleep=0.05)},
        {"label": "all families with frequent close/reopen cycles (Pebble directory)",
         "fams": ["exp", "str", "key", "list", "hash", "set", "zset"], "n": (1200, 4000), "count": (2, 12), "backend": "pebble", "events": ev},
    ], extra=[("key names of length 0..12 and element sizes around every prefix boundary, 3 reopen cycles (memory)", shapes("open a mem"), False),
              ("the same on Pebble", shapes(f"open a pebble {pdir}"), False)])
    shutil.rmtree(pdir, ignore_errors=True)
