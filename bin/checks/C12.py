"""C12 — eviction is invisible; a failed flush loses nothing (correspondence part).
Besides model ≈ implementation, the same command stream is run on the implementation with no
eviction pass, with a pass after every command, and with passes + injected write failures: all API
replies and the final logical keyspace must be identical (checked on the implementation alone)."""
import random, shutil
import vlib, gen_api
from checks import apicheck


def metamorphic(ctx, h, backend, n, idx):
    rng = ctx.rng
    base = gen_api.stream(rng, ["str", "key", "list", "hash", "set", "zset", "exp"], n, realtime=True, dump_every=0)[1:-1]
    # relational commands answer differently from run to run by design: leave them out here
    # ... and so does the positional SCAN cursor once expired records have been collected (known finding A-121b)
    base = [o for o in base if not any(x in o for x in (" RandomKey", " SPop ", " SRandMember ", " Scan "))]
    variants = {}
    for name in ("none", "every", "faulty"):
        pdir = f"{ctx.work}/pebble-meta-{idx}-{name}"
        shutil.rmtree(pdir, ignore_errors=True)
        ops = [f"open a pebble {pdir}" if backend == "pebble" else "open a mem"]
        r2 = random.Random(ctx.seed * 7919 + idx)
        for o in base:
            ops.append(o)
            if name == "every":
                ops.append("gc")
            elif name == "faulty":
                x = r2.random()
                if x < 0.25:
                    ops.append(f"failset {r2.choice([1, 2])}")
                if x < 0.6:
                    ops.append(r2.choice(["gc", "gc", "flush"]))
        ops += ["failset 0", "ldump"]
        vlib.correspond_stream(ctx, h, ops, f"meta{idx}-{name}", f"eviction schedule '{name}' ({backend})")
        g = open(f"{ctx.work}/meta{idx}-{name}.g").read().split("\n")
        variants[name] = [g[i] for i, o in enumerate(ops) if (o.startswith("api ") or o == "ldump") and i < len(g)]
        shutil.rmtree(pdir, ignore_errors=True)
    ctx.cov["eviction_schedules_compared"] = ctx.cov.get("eviction_schedules_compared", 0) + 3
    ref = variants["none"]
    for name in ("every", "faulty"):
        v = variants[name]
        for i, (a, b) in enumerate(zip(ref, v)):
            if a != b:
                vlib.record_violation(ctx, "eviction-visible", {
                    "schedule": name, "backend": backend, "reply_index": i, "without_eviction": a, "with_eviction": b,
                    "ops_file": f"{ctx.work}/meta{idx}-{name}.ops",
                    "explain": "the implementation's replies differ between the run without eviction passes and the run with this eviction schedule"})
                return


def edge_values(open_line):
    """empty and one-byte values of every type, evicted (three eviction passes), read back, closed,
    reopened and read back again: a value that is empty must stay empty (not absent, not null)"""
    from gen_api import hx
    e = "-"
    ops = [open_line,
           f"api Set 7330 {e} 0", f"api Set 7331 00 0", f"api Set 7332 0d0a 0", f"api Append 7333 {e}", f"api SetRange 7334 0 {e}",
           f"api RPush 6c30 {e}", f"api RPush 6c31 {e} {e} 00", f"api HSet 6830 {e} {e}", f"api HSet 6831 66 {e}", f"api HSet 6832 {e} 76",
           f"api SAdd 7430 {e}", f"api SAdd 7431 {e} 00", f"api ZAdd 7a30 {e} 0000000000000000", f"api ZAdd 7a31 {e} 8000000000000000"]
    reads = ["api Get 7330", "api Get 7331", "api Get 7332", "api Get 7333", "api Get 7334", "api StrLen 7330", "api Exists 7330 7333 7334", "api GetSet 7330 -",
             "api Append 7330 -", "api Get 7330", "api LRange 6c30 0 -1", "api LRange 6c31 0 -1", "api HGetAll 6830", "api HGet 6831 66", "api HGet 6832 -", "api HStrLen 6831 66",
             "api SMembers 7430", "api SMembers 7431", "api SIsMember 7430 -", "api ZScore 7a30 -", "api ZRangeWithScores 7a31 0 -1", "api Type 7330", "dump"]
    ops += reads + ["gc", "gc", "gc"] + reads + ["ldump", "close", "reopen", "ldump"] + reads + ["gc", "gc", "gc"] + reads
    return ops


def run(ctx, proofs_ok):
    from checks import cleanwrite
    quick = ctx.tier == "quick"
    ev = {"gc": 0.15, "flush": 0.05, "fail": 0.05, "reopen": 0.01}
    apicheck.run_streams(ctx, [
        {"label": "all families with dense eviction passes and injected write failures (memory backend, deterministic clock)",
         "fams": ["exp", "str", "key", "list", "hash", "set", "zset"], "n": (2500, 6000), "count": (3, 30), "ft": True,
         "events": dict(ev, sleep=0.04)},
        {"label": "all families with dense eviction passes and injected write failures (Pebble)",
         "fams": ["exp", "str", "key", "list", "hash", "set", "zset"], "n": (1200, 4000), "count": (2, 12), "backend": "pebble", "events": ev},
    ], extra=[("empty and one-byte values of every type, evicted and reloaded (memory)", edge_values("open a mem"), False),
              ("empty and one-byte values of every type, evicted and reloaded (Pebble)", edge_values(f"open a pebble {ctx.work}/pebble-edge"), False),
              ("writers: every writing method once on clean, cold keys with eviction passes in between, then Close + Open (memory)", cleanwrite.table("open a mem", evict_between=True, relative=True), True),
              ("writers-pebble: the same on Pebble, keys with deadlines", cleanwrite.table(f"open a pebble {ctx.work}/pebble-cw", evict_between=True, with_deadline=True), False)])
    if ctx.violations:
        return
    h = vlib.build_harness(ctx)
    for i in range(2 if quick else 12):
        metamorphic(ctx, h, "mem" if i % 2 == 0 else "pebble", 700 if quick else 2500, i)
        if ctx.violations:
            return
