"""C12 — eviction is invisible; a failed flush loses nothing (correspondence part).
Besides model ≈ implementation, the same command stream is run on the implementation with no
eviction pass, with a pass after every command, and with passes + injected write failures: all API
replies and the final logical keyspace must be identical (checked on the implementation alone)."""
import random, shutil
import vlib, gen_api
from checks import apicheck


def metamorphic(ctx, h, backend, n, idx):
    rng = ctx.rng
    base = gen_api.stream(rng, ["str", "key", "list", "hash", "set", "zset", "exp"], n, realtime=True, dump_every=0)[1:-1]
    # relational commands answer differently from run to run by design: leave them out here
    # ... and so does the positional SCAN cursor once expired records have been collected (known finding A-121b)
    base = [o for o in base if not any(x in o for x in (" RandomKey", " SPop ", " SRandMember ", " Scan "))]
    variants = {}
    for name in ("none", "every", "faulty"):
        pdir = f"{ctx.work}/pebble-meta-{idx}-{name}"
        shutil.rmtree(pdir, ignore_errors=True)
        ops = [f"open a pebble {pdir}" if backend == "pebble" else "open a mem"]
        r2 = random.Random(ctx.seed * 7919 + idx)
        for o in base:
            ops.append(o)
            if name == "every":
                ops.append("gc")
            elif name == "faulty":
                x = r2.random()
                if x < 0.25:
                    ops.append(f"failset {r2.choice([1, 2])}")
                if x < 0.6:
                    ops.append(r2.choice(["gc", "gc", "flush"]))
        ops += ["failset 0", "ldump"]
        vlib.correspond_stream(ctx, h, ops, f"meta{idx}-{name}", f"eviction schedule '{name}' ({backend})")
        g = open(f"{ctx.work}/meta{idx}-{name}.g").read().split("\n")
        variants[name] = [g[i] for i, o in enumerate(ops) if (o.startswith("api ") or o == "ldump") and i < len(g)]
        shutil.rmtree(pdir, ignore_errors=True)
    ctx.cov["eviction_schedules_compared"] = ctx.cov.get("eviction_schedules_compared", 0) + 3
    ref = variants["none"]
    for name in ("every", "faulty"):
        v = variants[name]
        for i, (a, b) in enumerate(zip(ref, v)):
            if a != b:
                vlib.record_violation(ctx, "eviction-visible", {
                    "schedule": name, "backend": backend, "reply_index": i, "without_eviction": a, "with_eviction": b,
                    "ops_file": f"{ctx.work}/meta{idx}-{name}.ops",
                    "explain": "the implementation's replies differ between the run without eviction passes and the run with this eviction schedule"})
                return


def run(ctx, proofs_ok):
    quick = ctx.tier == "quick"
    ev = {"gc": 0.15, "flush": 0.05, "fail": 0.05, "reopen": 0.01}
    apicheck.run_streams(ctx, [
        {"label": "all families with dense eviction passes and injected write failures (memory backend, deterministic clock)",
         "fams": ["exp", "str", "key", "list", "hash", "set", "zset"], "n": (2500, 6000), "count": (3, 30), "ft": True,
         "events": dict(ev, sleep=0.04)},
        {"label": "all families with dense eviction passes and injected write failures (Pebble)",
         "fams": ["exp", "str", "key", "list", "hash", "set", "zset"], "n": (1200, 4000), "count": (2, 12), "backend": "pebble", "events": ev},
    ])
    if ctx.violations:
        return
    h = vlib.build_harness(ctx)
    for i in range(2 if quick else 12):
        metamorphic(ctx, h, "mem" if i % 2 == 0 else "pebble", 700 if quick else 2500, i)
        if ctx.violations:
            return
