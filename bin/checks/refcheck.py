"""The reference oracle stage of C01-C04 (a search for failing inputs, never a proof): random single-client streams over
the network protocol, the real code's replies compared with bin/refredis.py - a reference implementation of the documented
Redis semantics written from the documentation, independent of nodis and of the Lean model. It exists because the model is
bug-compatible: where model and code agree on something the property's text forbids and no theorem speaks about that
reply, the correspondence is silent. Deviations recorded as known findings are followed by the reference (refredis.QUIRKS)
so that the run goes on; any other divergence is a violation with the stream up to it as the replay."""
import vlib
import refredis
from refredis import hx


def run(ctx, fams, label):
    if ctx.violations:
        return
    h = vlib.build_harness(ctx)
    q = ctx.tier == "quick"
    n_streams, length = (150, 60) if q else (2500, 120)
    streams = [refredis.gen(ctx.rng, length, fams) for _ in range(n_streams)]
    ops = ["open a mem", "conn c1"]
    for st in streams:
        ops.append("resp c1 " + b"FLUSHALL".hex())
        ops += ["resp c1 " + " ".join(hx(x) for x in cmd) for cmd in st]
    g, _ = vlib.run_pair(ctx, ops, h, "ref")
    i = 2
    compared = 0
    names = {}
    for st in streams:
        i += 1
        ref = refredis.Ref(quirks=True)
        for j, cmd in enumerate(st):
            got = g[i] if i < len(g) else "EOF"
            i += 1
            want = ref.run(cmd)
            if want is None or "#" in got:       # a command the reference does not know / a digest of a long value
                continue
            compared += 1
            names[cmd[0].decode()] = names.get(cmd[0].decode(), 0) + 1
            if refredis.canon(cmd, got) != refredis.canon(cmd, want):
                seq = ["open a mem", "conn c1"] + ["resp c1 " + " ".join(hx(x) for x in c) for c in st[:j + 1]]
                vlib.record_violation(ctx, "reference-differs", {
                    "ops": seq, "impl": got, "reference": want, "model": [],
                    "command": " ".join(x.decode("latin1") for x in cmd),
                    "stream": label,
                    "explain": "the real code's reply to the last command of this single-client sequence differs from the reference implementation of the documented Redis semantics (bin/refredis.py; known deviations are listed in refredis.QUIRKS / known_findings.json). Replay: vcheck.py replay re-runs the sequence against the code and the model; the reference's reply is in this file."})
                return
    ctx.cov["evaluations"] += compared
    ctx.cov["streams"].setdefault(label, []).append({"streams": n_streams, "commands_per_stream": length, "replies_compared_with_the_reference": compared,
                                                     "commands": dict(sorted(names.items())), "quirks_followed": sorted(refredis.QUIRKS)})
    ctx.nontrivial.add(("reference", fams))
