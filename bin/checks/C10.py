"""C10 — expiry: visible before the deadline, invisible at and after it (correspondence part)."""
from checks import apicheck
from gen_api import fbits


def boundary():
    """for every observer: a key with deadline T is observed at T-1 (visible), T (invisible) and T+1"""
    ops = ["open a mem"]
    i = 0
    setups = {
        "str": ["api Set {k} 3432 0"], "list": ["api RPush {k} 61 62"], "hash": ["api HSet {k} 66 76"],
        "set": ["api SAdd {k} 61 62"], "zset": ["api ZAdd {k} 61 " + fbits(1)],
    }
    deadlines = ["api ExpirePX {k} 1500", "api Expire {k} 2", "api ExpireAt {k} {abs}", "api ExpireNX {k} 2", "api ExpireGT {k} 2"]
    observers = {
        "str": ["api Get {k}", "api StrLen {k}", "api Append {k} 78", "api Incr {k}", "api GetRange {k} 0 -1", "api SetNX {k} 6e 0", "api SetXX {k} 6e 0", "api GetSet {k} 6e"],
        "list": ["api LLen {k}", "api LRange {k} 0 -1", "api LPush {k} 7a", "api LPop {k} 1", "api RPushX {k} 7a", "api LIndex {k} 0"],
        "hash": ["api HGet {k} 66", "api HLen {k}", "api HSet {k} 67 77", "api HGetAll {k}", "api HDel {k} 66"],
        "set": ["api SCard {k}", "api SMembers {k}", "api SAdd {k} 63", "api SIsMember {k} 61", "api SInter {k} {k}", "api SUnion {k} 6e6f", "api SPop {k} 1"],
        "zset": ["api ZCard {k}", "api ZScore {k} 61", "api ZAdd {k} 62 " + fbits(2), "api ZRangeWithScores {k} 1 10", "api ZUnion [ {k} ] [ ] -"],
    }
    generic = ["api Exists {k}", "api Type {k}", "api TTL {k}", "api PTTL {k}", "api Keys 2a", "api Scan 0 2a 100 0", "api Rename {k} 6f74686572",
               "api RenameNX {k} 6f74686572", "api Persist {k}", "api Del {k}", "api Expire {k} 100", "api ExpireXX {k} 100", "api RandomKey"]
    now = 1257894000000
    for fam, setup in setups.items():
        for dl in deadlines:
            for obs in observers[fam] + generic:
                for before in (1, 0, -1):                    # observe at T-1, T, T+1
                    i += 1
                    k = ("x%d" % i).encode().hex()
                    dur = 1500 if "PX" in dl else 2000
                    ops += [s.format(k=k) for s in setup]
                    ops.append(dl.format(k=k, abs=now + 2000))
                    wait = (2000 if "ExpireAt" in dl else dur) - before
                    ops.append(f"sleep {wait}")
                    now += wait
                    ops.append(obs.format(k=k))
                    ops.append(f"api Exists {k}")
                    ops.append("api Del " + k + " 6f74686572")
    ops.append("dump")
    return ops


def carry():
    """which deadline a key has after a command that overwrites, moves or stores into it: every
    combination of source deadline (none / future) and destination state (missing / live without
    deadline / live with deadline / expired), for RENAME, RENAMENX, GETSET, SET (+KEEPTTL via SetXX
    keepTTL), APPEND, INCR, the *STORE commands, RPOPLPUSH and SMOVE; followed by PTTL and a clock
    step past the destination's old deadline"""
    ops = ["open a mem"]
    i = 0
    from gen_api import hx
    def K(n):
        return hx(f"{n}{i}".encode())
    for src_dl in (0, 5000):
        for dst_state in ("missing", "live", "deadline", "expired"):
            for cmd in ("Rename", "RenameNX", "GetSet", "Set0", "Set1", "Append", "Incr", "SUnionStore", "ZUnionStore", "RPopLPush", "SMove"):
                i += 1
                fam = "set" if cmd in ("SUnionStore", "SMove") else ("zset" if cmd == "ZUnionStore" else ("list" if cmd == "RPopLPush" else "str"))
                mk = {"str": lambda k, v: f"api Set {k} {hx(v)} 0", "set": lambda k, v: f"api SAdd {k} {hx(v)}",
                      "zset": lambda k, v: f"api ZAdd {k} {hx(v)} 3ff0000000000000", "list": lambda k, v: f"api RPush {k} {hx(v)}"}[fam]
                s_, d_ = K("s"), K("d")
                ops.append(mk(s_, b"5"))
                if src_dl:
                    ops.append(f"api ExpirePX {s_} {src_dl}")
                if dst_state != "missing":
                    ops.append(mk(d_, b"7"))
                if dst_state == "deadline":
                    ops.append(f"api ExpirePX {d_} 300")
                if dst_state == "expired":
                    ops += [f"api ExpirePX {d_} 1", "sleep 2"]
                ops.append({"Rename": f"api Rename {s_} {d_}", "RenameNX": f"api RenameNX {s_} {d_}", "GetSet": f"api GetSet {d_} 39",
                            "Set0": f"api Set {d_} 39 0", "Set1": f"api SetXX {d_} 39 1", "Append": f"api Append {d_} 39", "Incr": f"api Incr {d_}",
                            "SUnionStore": f"api SUnionStore {d_} {s_}", "ZUnionStore": f"api ZUnionStore {d_} [ {s_} ] [ ] -",
                            "RPopLPush": f"api RPopLPush {s_} {d_}", "SMove": f"api SMove {s_} {d_} 35"}[cmd])
                ops += [f"api PTTL {d_}", f"api PTTL {s_}", "sleep 450", f"api Exists {d_} {s_}", f"api PTTL {d_}", "ldump", f"api Del {d_} {s_}"]
    ops.append("dump")
    return ops


def faulty_then_expire():
    """a key whose deadline was set / changed / removed after it had been stored, with the backend rejecting the NEXT write
    of that key (during a flush or an eviction pass), then good writes, then the deadline passes, the key is collected,
    and the store is closed and opened again: an expired key stays invisible - whatever a failed write left behind
    in the storage must not bring it back (nor may a live key be lost)"""
    from gen_api import NOW0, hx
    ops = ["open a mem"]
    now = NOW0
    i = 0
    for change in ("ExpireAt", "ExpireAt2", "Persist"):
        for failing in ("flush", "gc"):
            for nfail in (1, 2):
                i += 1
                k, live = hx(b"fk%d" % i), hx(b"live%d" % i)
                ops += [f"api Set {k} 7631 0", f"api Set {live} 6c 0"]
                if change != "ExpireAt":
                    ops.append(f"api ExpireAt {k} {now + 5000}")
                ops += ["flush"]
                ops.append({"ExpireAt": f"api ExpireAt {k} {now + 300}", "ExpireAt2": f"api ExpireAt {k} {now + 300}", "Persist": f"api Persist {k}"}[change])
                ops += [f"api Append {live} 78", f"failset {nfail}", failing, failing, "failset 0", "flush", f"api PTTL {k}", f"api Exists {k} {live}"]
                ops += ["sleep 400", f"api Exists {k} {live}", f"api Get {k}", "gc", "gc", "ldump", "close", "reopen", "ldump",
                        f"api Exists {k} {live}", f"api Get {k}", f"api PTTL {k}", "api Keys 2a", f"api Get {live}"]
                now += 400
                ops += ["sleep 6000", "gc", "ldump", "close", "reopen", "ldump", f"api Exists {k} {live}", "api Keys 2a"]
                now += 6000
    ops.append("dump")
    return ops


def run(ctx, proofs_ok):
    apicheck.run_streams(ctx, [
        {"label": "random expiry streams with exact clock steps (deterministic clock, memory backend)", "fams": ["exp", "exp", "exp", "str", "key", "list", "set"],
         "n": (2000, 6000), "count": (4, 40), "ft": True, "events": {"sleep": 0.2, "gc": 0.03}},
        {"label": "expiry mixed with every family, eviction and reopen (deterministic clock)", "fams": ["exp", "exp", "str", "key", "list", "hash", "set", "zset"],
         "n": (1500, 5000), "count": (2, 20), "ft": True, "events": {"sleep": 0.12, "gc": 0.06, "flush": 0.02, "reopen": 0.02}},
        {"label": "absolute deadlines far in the past / future on Pebble (wall clock)", "fams": ["exp", "str", "key", "hash"],
         "n": (600, 3000), "count": (1, 6), "backend": "pebble", "events": {"gc": 0.08, "reopen": 0.03}},
    ], extra=[("deadline boundary: every observer command at T-1, T, T+1 for every way of setting a deadline", boundary(), True),
              ("carried deadlines: which deadline the destination of an overwrite / move / store has, for every source and destination state", carry(), True),
              ("deadline changed after the key was stored, the next write rejected by the backend, then expiry, collection and Close + Open", faulty_then_expire(), True)])
