"""C08 — MULTI/EXEC runs the queue exactly once, in order, or not at all (correspondence part)."""
from checks import apicheck
from gen_api import hx


def scripted():
    """hand-built transaction scripts on two connections: nested MULTI, EXEC without MULTI, empty
    transaction, queue-time error, runtime error in the middle, DISCARD, two transactions in a row,
    other connection's commands between the queued ones"""
    c = lambda conn, *a: f"resp {conn} " + " ".join(hx(x) for x in a)
    ops = ["open a mem", "conn c1", "conn c2"]
    ops += [c("c1", "EXEC"), c("c1", "DISCARD"), c("c1", "MULTI"), c("c1", "EXEC"), c("c1", "MULTI"), c("c1", "MULTI"), c("c1", "EXEC")]
    ops += [c("c1", "MULTI"), c("c1", "SET", "k", "1"), c("c2", "GET", "k"), c("c1", "INCR", "k"), c("c2", "SET", "other", "x"), c("c1", "LPUSH", "k", "a"),
            c("c1", "INCR", "k"), c("c2", "GET", "k"), c("c1", "EXEC"), c("c2", "GET", "k"), c("c1", "GET", "k")]
    ops += [c("c1", "MULTI"), c("c1", "SET", "k"), c("c1", "SET", "k", "9"), c("c1", "EXEC"), c("c1", "GET", "k")]
    ops += [c("c1", "MULTI"), c("c1", "NOSUCH"), c("c1", "SET", "k", "9"), c("c1", "EXEC"), c("c1", "GET", "k")]
    ops += [c("c1", "MULTI"), c("c1", "SET", "k", "7"), c("c1", "DISCARD"), c("c1", "GET", "k"), c("c1", "EXEC")]
    ops += [c("c1", "MULTI"), c("c1", "RPUSH", "l", "a", "b"), c("c1", "LRANGE", "l", "0", "-1"), c("c1", "MGET", "k", "l", "k"), c("c1", "HGET", "l", "f"), c("c1", "LLEN", "l"), c("c1", "EXEC")]
    ops += [c("c1", "MULTI"), c("c1", "SET", "a", "1"), c("c1", "EXEC"), c("c1", "MULTI"), c("c1", "GET", "a"), c("c1", "EXEC")]
    ops += [c("c2", "MULTI"), c("c1", "MULTI"), c("c2", "SET", "z", "2"), c("c1", "SET", "z", "1"), c("c1", "EXEC"), c("c2", "EXEC"), c("c1", "GET", "z")]
    ops += [c("c1", "MULTI"), c("c1", "WATCH", "k"), c("c1", "SET", "k", "5"), c("c1", "EXEC"), c("c1", "GET", "k")]
    ops += [c("c1", "MULTI"), c("c1", "UNWATCH"), c("c1", "PING"), c("c1", "EXEC")]
    # queued reads run at EXEC time: after the queued writes and after other clients' writes in between
    for rd in (("DBSIZE",), ("KEYS", "*"), ("EXISTS", "q1", "q2"), ("GET", "q1"), ("LLEN", "ql"), ("LRANGE", "ql", "0", "-1"), ("SCARD", "qs"), ("SMEMBERS", "qs"),
               ("HGETALL", "qh"), ("ZRANGE", "qz", "0", "-1"), ("TYPE", "q1"), ("SCAN", "0"), ("TTL", "q1"), ("MGET", "q1", "q2")):
        ops += [c("c2", "FLUSHDB"), c("c1", "MULTI"), c("c1", "SET", "q1", "1"), c("c1", "RPUSH", "ql", "a"), c("c1", "SADD", "qs", "m"), c("c1", "HSET", "qh", "f", "v"),
                c("c1", "ZADD", "qz", "1", "m"), c("c1", *rd), c("c1", "DEL", "q1", "ql"), c("c1", *rd), c("c2", "SET", "q2", "other"), c("c1", "EXEC"), c("c1", *rd)]
    ops.append("dump")
    return ops


def run(ctx, proofs_ok):
    apicheck.run_resp_streams(ctx, [
        {"label": "transactions on 2 connections over strings/keyspace/lists/hashes/sets", "fams": ["strings", "keyspace", "lists", "hashes", "sets", "tx", "tx", "tx"],
         "n": (2500, 8000), "count": (3, 30), "conns": 2},
        {"label": "transactions on 3 connections incl. sorted sets and scans", "fams": ["strings", "keyspace", "zs", "lists", "tx", "tx"],
         "n": (2500, 8000), "count": (2, 20), "conns": 3},
    ], extra=[("scripted transaction scenarios (nested MULTI, aborts, runtime errors, interleaved clients)", scripted())])
    if ctx.violations:
        return
    # real concurrency: another connection must never see the middle of a transaction
    from checks import conc
    q = ctx.tier == "quick"
    conc.run_scenarios(ctx, [("tcp-exec-isolation", 15 if q else 150, w) for w in ((0, 25) if q else (0, 10, 30, 60))],
                       "EXEC isolation under concurrent connections (observers use MGET and their own MULTI/EXEC)")
    if ctx.violations:
        return
    # the gate protocol (Model/Gate.lean, `gev` lines of the recorded trace): transactions against a waiter
    # blocked in BLPOP that their own push wakes up, the optimistic WATCH loop, a mix of every kind of command
    conc.run_scenarios(ctx, [("tcp-exec-bpop", 12 if q else 100, 0), ("tcp-watch-incr", 3 if q else 20, 0), ("tcp-mix", 6 if q else 60, 0)],
                       "gate protocol: EXEC against blocking pops, optimistic loops and command mixes of other connections")
