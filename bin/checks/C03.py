"""C03 — hashes and sets behave as exact maps and mathematical sets (correspondence part)."""
from checks import apicheck


def algebra_ops():
    """set algebra over every subset of {missing, empty-after-removal, repeated, wrong type} operands"""
    ops = ["open a mem", "api SAdd 7331 61 62 63", "api SAdd 7332 62 63 64", "api SAdd 7333 63 - 00ff", "api Set 7373 76 0",
           "api SAdd 7334 78", "api SRem 7334 78"]
    keys = ["7331", "7332", "7333", "7334", "6e6f", "7373"]
    import itertools
    for n in (1, 2, 3):
        for combo in itertools.product(keys, repeat=n):
            for cmd in ("SInter", "SUnion", "SDiff"):
                ops.append(f"api {cmd} " + " ".join(combo))
    i = 0
    for combo in itertools.product(keys[:5], repeat=2):
        for cmd in ("SInterStore", "SUnionStore", "SDiffStore"):
            i += 1
            dst = ("d%d" % (i % 7)).encode().hex()
            ops += [f"api {cmd} {dst} " + " ".join(combo), f"api SMembers {dst}", f"api Exists {dst}"]
    ops.append("dump")
    return ops


def alias_ops():
    """every two-key set command with source = destination (and destination among the operands), on sets
    of 0, 1, 2 members, followed by the observable state: the key is its own destination"""
    from gen_api import hx
    ops = ["open a mem"]
    i = 0
    for n in (0, 1, 2):
        members = [b"a", b"b"][:n]
        for cmd in ("SMove-member", "SMove-nonmember", "SUnionStore", "SInterStore", "SDiffStore", "SUnionStore2", "SInterStore2", "SDiffStore2"):
            for m in (members or [b"a"]):
                i += 1
                k, o = hx(b"k%d" % i), hx(b"o%d" % i)
                if members:
                    ops.append(f"api SAdd {k} " + " ".join(hx(x) for x in members))
                ops.append(f"api SAdd {o} {hx(b'a')} {hx(b'z')}")
                ops.append({"SMove-member": f"api SMove {k} {k} {hx(m)}", "SMove-nonmember": f"api SMove {k} {k} {hx(b'zz')}",
                            "SUnionStore": f"api SUnionStore {k} {k}", "SInterStore": f"api SInterStore {k} {k}", "SDiffStore": f"api SDiffStore {k} {k}",
                            "SUnionStore2": f"api SUnionStore {k} {o} {k}", "SInterStore2": f"api SInterStore {k} {k} {o}", "SDiffStore2": f"api SDiffStore {k} {o} {k}"}[cmd])
                ops += [f"api SMembers {k}", f"api SCard {k}", f"api Exists {k}", f"api Type {k}", f"api SIsMember {k} {hx(m)}"]
    ops.append("dump")
    return ops


def grow_after_reload(open_line):
    """values that are rewritten with LONGER content after the collection has been decoded from the storage backend
    (eviction and reload, Close + Open): decoded elements are sub-slices of one buffer, so an update that reuses an
    element's storage would run into its neighbours - every field / member must keep its own bytes"""
    from gen_api import fbits
    ops = [open_line, "api HSet 6830 61 31", "api HSet 6830 62 68656c6c6f", "api HSet 6830 63 7a7a", "api HSet 6830 64 39", "api HSet 6830 65 -",
           "api SAdd 7330 61 62 63", "flush"]
    probe = ["api HGetAll 6830", "api HGet 6830 62", "api HStrLen 6830 63", "api SMembers 7330"]
    for reload in (["gc", "gc", "gc"], ["ldump", "close", "reopen", "ldump"], ["gc", "gc", "gc"]):
        ops += reload
        ops += ["api HIncrBy 6830 61 123456789012"] + probe + ["api HIncrBy 6830 64 9000000000000"] + probe
        ops += [f"api HIncrByFloat 6830 65 {fbits(1000000.0)}"] + probe + ["api HSet 6830 61 r40x78"] + probe + ["api HSetNX 6830 66 r30x79", "api HDel 6830 62"] + probe
        ops += ["api HSet 6830 62 68656c6c6f", "api HSet 6830 61 31", "api HSet 6830 64 39", "api HSet 6830 65 -", "flush"]
    ops.append("dump")
    return ops


def run(ctx, proofs_ok):
    apicheck.run_streams(ctx, [
        {"label": "random hash/set command streams (embedded API, memory backend)", "fams": ["hash", "set", "hash", "set", "key"],
         "n": (1500, 5000), "count": (4, 40)},
        {"label": "hash/set streams with eviction passes, expiry and reopen (memory backend, deterministic clock)",
         "fams": ["hash", "set", "hash", "set", "key", "exp"], "n": (1200, 4000), "count": (2, 12), "ft": True,
         "events": {"gc": 0.08, "flush": 0.03, "reopen": 0.02, "sleep": 0.03}},
        {"label": "hash/set streams on Pebble with eviction and reopen", "fams": ["hash", "set", "key"],
         "n": (600, 3000), "count": (1, 6), "backend": "pebble", "events": {"gc": 0.08, "flush": 0.03, "reopen": 0.02}},
    ], extra=[("exhaustive set algebra over missing / emptied / repeated / wrong-typed operands", algebra_ops(), False),
              ("source = destination: SMOVE k k m and *STORE onto an operand, on sets of 0, 1, 2 members", alias_ops(), False),
              ("fields rewritten with longer values after the hash was reloaded from storage (memory)", grow_after_reload("open a mem"), False),
              ("fields rewritten with longer values after the hash was reloaded from storage (Pebble)", grow_after_reload(f"open a pebble {ctx.work}/pebble-grow"), False)])
    if ctx.violations:
        return
    # the command layer (argument text, option words, replies) of the same families over the network protocol
    apicheck.run_resp_streams(ctx, [
        {"label": "hash and set commands over the network protocol (handlers) against the model", "fams": ['hashes', 'sets', 'hashes', 'sets', 'keyspace'], "n": (2500, 8000), "count": (2, 16), "conns": 1},
    ])
    # a second oracle that owes nothing to the model: the documented Redis semantics (bin/refredis.py)
    from checks import refcheck
    refcheck.run(ctx, "hhttk", "hashes and sets against the reference implementation of the documented semantics")
