"""C16 — exactly one well-formed RESP reply per command, in order (correspondence + direct framing check).

Two parts: (1) model ≈ implementation on command streams of every family (the model's replies are
token lists, so a second reply or a truncated array is a divergence unless the model predicts it);
(2) a direct sweep on the implementation alone: every command name of handler.go's dispatch table x
arities 0..8 x operand classes x prior key types, each command followed by a pipelined ECHO marker;
the tokens read before the marker must be exactly one complete RESP value."""
import re
import struct
import vlib
from checks import apicheck
from gen_api import hx

MODELLED_SKIP = {"QUIT", "BLPOP", "BRPOP", "MULTI", "EXEC", "DISCARD", "SUBSCRIBE"}   # QUIT: its reply never arrives (FINDINGS.md D-1; scripted `quit` cases)
OPERANDS = [b"k", b"1", b"-1", b"0", b"abc", b"", b"2", b"(1", b"inf", b"NX", b"COUNT", b"MATCH", b"LIMIT", b"WITHSCORES", b"BEFORE", b"5", b"x y", b"\r\n"]


def command_names():
    src = open(f"{vlib.REPO}/handler.go").read()
    body = src[src.index("func GetCommand("):]
    body = body[:body.index("\n}\n")]
    return re.findall(r'case "([A-Z]+)":', body)


def one_value(tokens):
    """tokens: canonical token strings of the harness. True iff exactly one complete RESP value."""
    def size(i):
        if i >= len(tokens):
            return -1
        t = tokens[i]
        if t.startswith("*") and t != "*N":
            n = int(t[1:])
            k = 1
            for _ in range(n):
                s = size(i + k)
                if s < 0:
                    return -1
                k += s
            return k
        return 1
    return size(0) == len(tokens)


def sweep(ctx, names):
    rng = ctx.rng
    quick = ctx.tier == "quick"
    ops = ["open a mem", "conn c1"]
    setup = [("SET", "s", "10"), ("RPUSH", "l", "a", "b", "c"), ("HSET", "h", "f", "1", "g", "2"), ("SADD", "t", "a", "b"), ("ZADD", "z", "1", "a", "2", "b")]
    c = lambda *a: "resp c1 " + " ".join(hx(x) for x in a)
    ops += [c(*s) for s in setup]
    keys = [b"s", b"l", b"h", b"t", b"z", b"nokey"]
    cases = []
    for name in names:
        if name in MODELLED_SKIP:
            continue
        for arity in range(0, 9):
            reps = 2 if quick else 8
            for _ in range(reps):
                args = []
                for j in range(arity):
                    args.append(rng.choice(keys) if j == 0 and rng.random() < 0.8 else rng.choice(OPERANDS + keys))
                cases.append((name, args))
    rng.shuffle(cases)
    for name, args in cases:
        ops.append(c(name, *args))
        if name in ("FLUSHDB", "FLUSHALL") or rng.random() < 0.02:
            ops += [c(*s) for s in setup]
    return ops


def geo_real_data_cases(c):
    """the GEO commands on a key whose members lie in neighbouring geohash boxes and far apart, with every option
    combination"""
    ops = []
    for radius, unit in (("1", "km"), ("100", "m"), ("500", "km"), ("0", "km"), ("200", "mi")):
        for center in (("0", "0"), ("15", "37")):
            for opts in ([], ["WITHDIST"], ["WITHCOORD"], ["WITHHASH"], ["WITHCOORD", "WITHDIST", "WITHHASH"], ["COUNT", "1"], ["COUNT", "2", "ASC"], ["COUNT", "3", "DESC", "WITHDIST"],
                         ["COUNT", "1", "ANY"], ["ASC"], ["DESC", "WITHCOORD"], ["COUNT", "0"], ["COUNT", "-1"], ["COUNT"], ["WITHDIST", "COUNT", "1", "WITHCOORD"]):
                ops.append(c("GEORADIUS", "gk", *center, radius, unit, *opts))
        for member in ("ne", "Palermo", "nobody"):
            for opts in ([], ["WITHDIST"], ["WITHCOORD", "WITHDIST", "WITHHASH"], ["COUNT", "1"], ["COUNT", "2", "DESC", "WITHDIST"], ["WITHDIST", "KM"]):
                ops.append(c("GEORADIUSBYMEMBER", "gk", member, radius, unit, *opts))
    for cmd in (("GEOPOS", "gk", "ne", "nobody", "Palermo"), ("GEOHASH", "gk", "ne", "nobody"), ("GEODIST", "gk", "ne", "sw"), ("GEODIST", "gk", "ne", "sw", "km"), ("GEODIST", "gk", "ne", "nobody"),
                ("GEODIST", "gk", "ne", "sw", "parsec"), ("GEOPOS", "nokey", "x"), ("GEOPOS", "s", "x"), ("GEORADIUS", "s", "0", "0", "1", "km"), ("GEORADIUS", "nokey", "0", "0", "1", "km", "COUNT", "1")):
        ops.append(c(*cmd))
    return ops


def special_sweep(ctx, names):
    """(1) every command of the dispatch table queued inside MULTI and run by EXEC (a handler that replies
    outside the queued closure answers twice at queue time and leaves a hole in EXEC's array);
    (2) the GEO commands on a key whose members lie in neighbouring geohash boxes and far apart, with every
    option combination. Checked on the implementation alone: the tokens read before the pipelined marker are
    exactly one complete RESP value (the same GEO cases are compared with the model in the `georeal` stream)."""
    rng = ctx.rng
    c = lambda *a: "resp c1 " + " ".join(hx(x) for x in a)
    setup = [("SET", "s", "10"), ("RPUSH", "l", "a", "b", "c"), ("HSET", "h", "f", "1", "g", "2"), ("SADD", "t", "a", "b"), ("ZADD", "z", "1", "a", "2", "b"),
             ("GEOADD", "gk", "0.0001", "0.0001", "ne", "-0.0001", "0.0001", "nw", "0.0001", "-0.0001", "se", "-0.0001", "-0.0001", "sw", "13.361389", "38.115556", "Palermo", "15.087269", "37.502669", "Catania")]
    ops = ["open a mem", "conn c1"] + [c(*x) for x in setup]
    args_for = {1: [["s"], ["l"], ["z"], ["gk"]], 2: [["s", "1"], ["z", "a"], ["l", "0"]], 3: [["s", "0", "1"], ["z", "0", "-1"], ["h", "f", "1"], ["gk", "ne", "sw"]]}
    for name in names:
        if name in ("MULTI", "EXEC", "DISCARD", "WATCH", "QUIT", "BLPOP", "BRPOP", "FLUSHDB", "FLUSHALL"):
            continue
        for arity in (0, 1, 2, 3):
            for args in (args_for.get(arity) or [[]])[: (2 if ctx.tier == "quick" else 4)]:
                ops += [c("MULTI"), c(name, *args), c("EXEC")]
    ops += geo_real_data_cases(c)
    return ops


def big_replies():
    """replies larger than every internal buffer (4 KiB reader buffer, the writer's growing buffer), each
    on a fresh connection and again on a used one: GET of 4095..100000 bytes, MGET of several large
    values, LRANGE / SMEMBERS / HGETALL / ZRANGE WITHSCORES of thousands of elements, all inside
    and outside MULTI, each followed by a small command whose reply must still be in place"""
    c = lambda conn, *a: f"resp {conn} " + " ".join(a)
    ops = ["open a mem"]
    sizes = [4095, 4096, 4097, 8185, 8186, 8187, 8192, 16384, 20000, 65536, 100000]
    ops += [f"conn b{i}" for i in range(len(sizes) + 4)]
    for i, n in enumerate(sizes):
        k = hx(b"big%d" % n)
        ops += [c("b0", hx(b"SET"), k, "r%dx%02x" % (n, 97 + i % 26))]
        ops += [c(f"b{i+1}", hx(b"GET"), k), c(f"b{i+1}", hx(b"STRLEN"), k), c(f"b{i+1}", hx(b"GET"), k), c(f"b{i+1}", hx(b"ECHO"), hx(b"after"))]
    two = [hx(b"big8186"), hx(b"big65536")]
    ops += [c("b0", hx(b"MGET"), *two, hx(b"nokey"), two[0]), c("b0", hx(b"PING"))]
    ops += [c("b12", hx(b"MULTI")), c("b12", hx(b"GET"), two[1]), c("b12", hx(b"GET"), two[0]), c("b12", hx(b"STRLEN"), two[0]), c("b12", hx(b"EXEC")), c("b12", hx(b"PING"))]
    for j in range(0, 3000, 250):
        ops.append(c("b0", hx(b"RPUSH"), hx(b"biglist"), *[hx(b"element-%05d" % x) for x in range(j, j + 250)]))
        ops.append(c("b0", hx(b"SADD"), hx(b"bigset"), *[hx(b"member-%05d" % x) for x in range(j, j + 250)]))
        ops.append(c("b0", hx(b"HSET"), hx(b"bighash"), *[hx((b"f%05d" if y == 0 else b"value-%05d") % x) for x in range(j, j + 250) for y in (0, 1)]))
        ops.append(c("b0", hx(b"ZADD"), hx(b"bigz"), *[t for x in range(j, j + 250) for t in (hx(b"%d" % x), hx(b"m%05d" % x))]))
    ops += [c("b13", hx(b"LRANGE"), hx(b"biglist"), hx(b"0"), hx(b"-1")), c("b13", hx(b"LLEN"), hx(b"biglist")),
            c("b13", hx(b"SMEMBERS"), hx(b"bigset")), c("b13", hx(b"SCARD"), hx(b"bigset")),
            c("b14", hx(b"HGETALL"), hx(b"bighash")), c("b14", hx(b"HLEN"), hx(b"bighash")),
            c("b14", hx(b"ZRANGE"), hx(b"bigz"), hx(b"0"), hx(b"-1"), hx(b"WITHSCORES")), c("b14", hx(b"ZCARD"), hx(b"bigz")),
            c("b14", hx(b"KEYS"), hx(b"*")), c("b14", hx(b"ECHO"), "r30000x7a"), c("b14", hx(b"PING"))]
    return ops


# ---------------------------------------------------------------------------------------------------
# the reply writer alone (redis.Writer of redis/resp.go) against Model/RespWriter: harness lines "wr …",
# private state (w, len(buf), err), the whole backing array and the sink compared after every call
WR_DEFAULT = 4096
WR_DOUBLES = [("3ff0000000000000", "1"), ("7ff0000000000000", "+Inf"), ("fff0000000000000", "-Inf"), ("7ff8000000000001", "NaN"),
              ("c08f400000000000", "-1000"), ("0000000000000000", "0"), ("4340000000000000", "9007199254740992")]
WR_SMALL = (["wr WriteInt64 -9223372036854775808", "wr WriteInt64 9223372036854775807", "wr WriteUInt64 18446744073709551615",
             "wr WriteArray 0", "wr WriteArray -1", "wr WriteMap 3", "wr WriteOK", "wr WriteBulkNull", "wr WriteArrayNull", "wr WriteNullMap"]
            + ["wr WriteDouble " + b for b, _ in WR_DOUBLES])
WR_SHORT = ["wr WriteString -", "wr WriteString 4f4b", "wr WriteBulk -", "wr WriteBulk 68656c6c6f", "wr WriteError -", "wr WriteError 455252206e6f"]


def wr_pat(n, kind="r", byte=0x61):
    """one argument token of n bytes: r = n times the byte, c = counting pattern starting at the byte"""
    return "-" if n == 0 else "%s%dx%02x" % (kind, n, byte)


def double_bits(k):
    return struct.pack(">d", float(k)).hex()


class WrShadow:
    """follows the growth policy of the Go writer (writeByte: +4096 when w >= len; writeBytes(n): +n when
    w+n >= len). It only steers the generator towards the boundaries; it is never compared with anything."""

    def __init__(self):
        self.w, self.ln, self.total = 0, WR_DEFAULT, 0

    def byte(self):
        if self.w >= self.ln:
            self.ln += WR_DEFAULT
        self.w += 1
        self.total += 1

    def chunk(self, n):
        if self.w + n >= self.ln:
            self.ln += n
        self.w += n
        self.total += n

    def apply(self, op):
        t = op.split()
        name = t[1]
        if name == "new":
            self.w, self.ln = 0, WR_DEFAULT
        elif name == "Flush":
            self.w = 0
        elif name in ("WriteString", "WriteError"):
            self.byte(); self.chunk(wr_len(t[2])); self.chunk(2)
        elif name == "WriteBulk":
            n = wr_len(t[2])
            self.byte(); self.chunk(len(str(n))); self.chunk(2); self.chunk(n); self.chunk(2)
        elif name in ("WriteArray", "WriteMap", "WriteInt64", "WriteUInt64"):
            self.byte(); self.chunk(len(t[2])); self.chunk(2)
        elif name == "WriteDouble":
            txt = dict(WR_DOUBLES).get(t[2])
            if txt is None:
                txt = str(int(struct.unpack(">d", bytes.fromhex(t[2]))[0]))
            self.byte(); self.chunk(len(txt)); self.chunk(2)
        elif name in ("WriteBulkNull", "WriteArrayNull", "WriteNullMap", "WriteOK"):
            self.chunk(5)


def wr_len(tok):
    if tok == "-":
        return 0
    if tok[0] in "rc" and "x" in tok:
        return int(tok[1:tok.index("x")])
    return len(tok) // 2


def writer_bytes(ops):
    """total number of bytes the writer is asked to append by a stream (budget check of the generators)"""
    sh = WrShadow()
    for op in ops:
        sh.apply(op)
    return sh.total


def writer_edges(quick=True):
    """deterministic boundary cases of the writer: payloads of every size around the initial 4096 bytes and
    around its multiples, the buffer filled to defaultSize-2..+2 followed by each kind of write, failing
    flushes (0 / some / all bytes accepted) followed by more writes, the error flag through Flush, 10^4
    writes without a flush, 2000 writes each followed by a flush, one reply crossing the buffer's end with a
    (failing) Flush at every position"""
    ops = []
    sizes = [0, 1, 2] + list(range(4090, 4101)) + list(range(8185, 8196)) + list(range(12286, 12291)) + [16383, 16384, 16385, 65535, 65536, 65537, 1048576]
    for n in sizes:
        big = ["wr WriteBulk " + wr_pat(n, "r", 0x61)]
        if n <= 70000:
            big += ["wr WriteString " + wr_pat(n, "c", 0x20), "wr WriteError " + wr_pat(n, "c", 0x20)]
        for b in big:
            ops += ["wr new", b, "wr Bytes", "wr HasError", "wr Flush"] + WR_SMALL + ["wr Flush", "wr dump"]
    # fill to the boundary with a simple string (w = L + 3), then each kind of write
    for target in range(WR_DEFAULT - 2, WR_DEFAULT + 3):
        for small in WR_SMALL + WR_SHORT + ["wr WriteInt64 1", "wr WriteArray 10"]:
            ops += ["wr new", "wr WriteString " + wr_pat(target - 3, "c", 0x41), small, "wr Bytes", "wr dump"]
    # w = len-1 after a write, so that the first byte of the next reply makes w == len, for every kind of next reply
    for small in WR_SMALL[:3] + WR_SHORT + ["wr WriteOK", "wr WriteInt64 1"]:
        ops += ["wr new", "wr WriteString " + wr_pat(WR_DEFAULT - 4, "c", 0x41), small, "wr WriteInt64 1", "wr dump", "wr Flush", small, "wr dump"]
    # a 5-byte constant that crosses the end, then single-byte-first writes
    ops += ["wr new", "wr WriteString c4090x41", "wr WriteBulkNull", "wr WriteInt64 1", "wr WriteInt64 22", "wr WriteOK", "wr WriteString -", "wr WriteBulk -",
            "wr Bytes", "wr dump", "wr Flush", "wr WriteInt64 1", "wr dump"]
    # failing sinks: nothing / 3 bytes / everything accepted, then more writes, a successful flush
    for k in (0, 3, 1000000):
        ops += ["wr new", "wr WriteOK", "wr WriteBulk 68656c6c6f", f"wr FlushFail {k}", "wr HasError", "wr Bytes", "wr WriteInt64 7", f"wr FlushFail {k}",
                "wr WriteError 6f6f7073", "wr HasError", f"wr FlushFail {k}", "wr HasError", "wr Bytes", "wr Flush", "wr HasError", "wr Bytes", "wr dump",
                "wr Flush", f"wr FlushFail {k}", "wr Flush", "wr dump"]
    ops += ["wr new", "wr FlushFail 0", "wr Flush", "wr WriteString c5000x30", "wr FlushFail 4096", "wr WriteOK", "wr FlushFail 5007", "wr Flush", "wr dump"]
    # the error flag
    ops += ["wr new", "wr HasError", "wr WriteError 455252", "wr HasError", "wr WriteOK", "wr HasError", "wr Flush", "wr HasError", "wr WriteOK", "wr HasError",
            "wr WriteError -", "wr HasError", "wr new", "wr HasError", "wr dump"]
    # 10^4 writes without a flush (a growing writeBytes adds exactly its own size; slack comes back only with a type byte at w == len)
    ops.append("wr new")
    for i in range(10000):
        if i % 7 == 3:
            ops.append("wr WriteBulk " + wr_pat(i % 23, "c", 0x30 + i % 64))
        elif i % 11 == 5:
            ops.append("wr WriteOK")
        else:
            ops.append(f"wr WriteInt64 {(-1) ** i * i * 37}")
    ops += ["wr Bytes", "wr HasError", "wr Flush", "wr dump", "wr WriteOK", "wr Flush", "wr dump"]
    # a flush after every write
    ops.append("wr new")
    for i in range(2000):
        pick = i % 9
        if pick == 0:
            ops.append("wr WriteBulk " + wr_pat(i % 31, "r", 0x41 + i % 26))
        elif pick == 1:
            ops.append("wr WriteError " + wr_pat(i % 5, "c", 0x45))
        elif pick == 2:
            ops.append(WR_SMALL[i % len(WR_SMALL)])
        elif pick == 3:
            ops.append("wr WriteDouble " + double_bits((i - 1000) * 12345))
        else:
            ops.append(f"wr WriteInt64 {i - 1000}")
        ops.append("wr Flush")
        if i % 400 == 399:
            ops.append("wr dump")
    ops += ["wr HasError", "wr dump"]
    # one fixed sequence of writes that crosses the end of the initial buffer (an array of bulk strings, an error in
    # the middle), with a Flush inserted at EVERY position, and with a failing Flush (3 bytes taken) at every position
    base = ["wr WriteArray 9", "wr WriteBulk " + wr_pat(2000, "c", 0x41), "wr WriteBulkNull", "wr WriteInt64 -42", "wr WriteBulk " + wr_pat(2080, "r", 0x62),
            "wr WriteError 45525220626f6f6d", "wr WriteBulk -", "wr WriteString 4f4b", "wr WriteBulk " + wr_pat(5000, "c", 0x30), "wr WriteUInt64 18446744073709551615"]
    for k in range(len(base) + 1):
        for fl in ("wr Flush", "wr FlushFail 3"):
            ops += ["wr new"] + base[:k] + [fl, "wr HasError"] + base[k:] + ["wr Bytes", "wr Flush", "wr HasError", "wr dump"]
    return ops


def writer_stream(rng, n, max_huge=2, p64k=0.008):
    """random call sequences on one bare writer. A shadow (w, len) following the Go growth policy steers the
    payload sizes onto free-2..free+2, the multiples of 4096 / 8192, sometimes 64 KiB and at most max_huge
    times 1 MiB; flushes (some failing after k bytes), Bytes / HasError / dump, a new writer now and then."""
    I64 = [-2 ** 63, 2 ** 63 - 1, 0, -1, 1, 10, -10, 2 ** 31, -2 ** 31, 2 ** 32, 999999999, -1000000000]
    U64 = [0, 1, 2 ** 64 - 1, 2 ** 63, 2 ** 63 - 1, 10 ** 19]
    ops = ["wr new"]
    sh = WrShadow()
    huge = 0
    renew_in = -1            # after a 1 MiB payload the writer is replaced within a few calls (its buffer never shrinks)

    def size(overhead):
        nonlocal huge
        free = sh.ln - sh.w
        r = rng.random()
        if r < 0.40:
            return rng.randint(0, 20)
        if r < 0.75 and free <= 20000:
            return max(0, free - overhead + rng.randint(-3, 3))
        if r < 0.92:
            base = rng.choice([4096, 4096, 8192, 8192, 12288, 16384])
            return max(0, base - rng.choice([0, overhead, sh.w % 4096]) + rng.randint(-3, 3))
        if r < 0.92 + p64k:
            return 65536 + rng.randint(-2, 2)
        if r < 0.92 + p64k + 0.002 and huge < max_huge:
            huge += 1
            return 1048576 + rng.randint(-1, 1)
        return rng.randint(0, 300)

    def arg(k):
        if k == 0:
            return "-"
        if k <= 20 and rng.random() < 0.5:
            return bytes(rng.choice([13, 10, 0, 255, 43, 36, 45, 58]) if rng.random() < 0.3 else rng.randrange(256) for _ in range(k)).hex()
        return wr_pat(k, rng.choice("rc"), rng.randrange(256))

    while len(ops) < n:
        r = rng.random()
        if renew_in == 0 or r < (0.05 if sh.ln > 20000 else 0.01):
            op, renew_in = "wr new", -1
        elif r < 0.16:
            op = "wr Flush"
        elif r < 0.18:
            op = "wr FlushFail %d" % max(0, rng.choice([0, 1, sh.w - 1, sh.w, sh.w + 5]))
        elif r < 0.21:
            op = "wr Bytes"
        elif r < 0.24:
            op = "wr HasError"
        elif r < 0.27:
            op = "wr dump"
        elif r < 0.55:
            kind = rng.choice(["WriteString", "WriteBulk", "WriteBulk", "WriteError"])
            k = size(1 if kind != "WriteBulk" else 1 + len(str(max(0, sh.ln - sh.w))) + 2)
            if k >= 1000000:
                renew_in = rng.randint(4, 12)
            op = f"wr {kind} {arg(k)}"
        elif r < 0.67:
            v = rng.choice(I64) if rng.random() < 0.4 else (rng.randint(-2 ** 63, 2 ** 63 - 1) if rng.random() < 0.5 else rng.randint(-100000, 100000))
            op = f"wr WriteInt64 {v}"
        elif r < 0.72:
            v = rng.choice(U64) if rng.random() < 0.5 else rng.randrange(2 ** 64)
            op = f"wr WriteUInt64 {v}"
        elif r < 0.80:
            op = "wr %s %d" % (rng.choice(["WriteArray", "WriteMap"]), rng.choice([-1, 0, 1, 10, 1000000, -5]))
        elif r < 0.88:
            if rng.random() < 0.5:
                bits = rng.choice(WR_DOUBLES)[0]
            else:
                m = rng.choice([10, 1000, 10 ** 6, 2 ** 31, 2 ** 53 - 1])
                bits = double_bits(rng.randint(-m, m))
            op = "wr WriteDouble " + bits
        else:
            op = "wr " + rng.choice(["WriteOK", "WriteBulkNull", "WriteArrayNull", "WriteNullMap"])
        ops.append(op)
        sh.apply(op)
        if renew_in > 0:
            renew_in -= 1
    ops += ["wr Bytes", "wr dump", "wr Flush", "wr dump"]
    return ops


def _wr_observable(line):
    """a `wr` line without the REPRESENTATION of the buffer: the length of the backing array (len=) and the digest of
    the whole array with its stale bytes (buf=). What stays is what a caller of the Writer can observe: the reply of the
    call, w (= len(Bytes())), err, the chunk handed to the connection, the sink."""
    return re.sub(r"\bbuf=\S+", "buf=*", re.sub(r"\blen=\d+", "len=*", line))


def _wr_inv_broken(g):
    """first line of the implementation on which w > len(buf) (the representation invariant the proofs need)"""
    for i, x in enumerate(g):
        mo = re.search(r"\bw=(\d+) len=(\d+)", x)
        if mo and int(mo.group(1)) > int(mo.group(2)):
            return i
    return None


def writer_correspond(ctx, h, ops, tag, label):
    """The bare reply writer against Model/RespWriter.lean, whole state after every call.

    Two levels. (1) Observable behaviour (replies, w, err, every chunk handed to the connection, the sink) must agree
    verbatim: any difference is a VIOLATION, as is a state with w > len(buf). (2) The representation — len(buf) after
    every call and the stale bytes of the backing array — is compared too. If ONLY the representation differs, the code
    has a different growth / copy policy than the one the model mirrors (`writeBytes_policy`, `writer_growth*`,
    `grow_copies_everything` no longer describe it) while it still refines the abstract buffered writer
    (Spec/RespWriterSpec.lean) on every call of the run, which is what C16 needs. That is reported as a note
    (`writer-representation-drift`, evidence) and NOT as a violation, unless VERIF_WRITER_REPR=strict: a
    behaviour-preserving change of the growth policy (DESIGN §8, H1-1) must not raise an alarm."""
    import os
    strict = os.environ.get("VERIF_WRITER_REPR", "observable") == "strict"
    g, m = vlib.run_pair(ctx, ops, h, tag)
    ctx.cov["evaluations"] += len(ops)
    ctx.cov["streams"][label] = ctx.cov["streams"].get(label, 0) + len(ops)

    def divergence(gg, mm, n):
        """index of the first line that counts as a divergence, or None"""
        if strict:
            return vlib.first_diff(gg, mm, n)
        d = vlib.first_diff([_wr_observable(x) for x in gg], [_wr_observable(x) for x in mm], n)
        b = _wr_inv_broken(gg[:n])
        cands = [x for x in (d, b) if x is not None]
        return min(cands) if cands else None

    for i, op in enumerate(ops):
        if i < len(g) and i < len(m) and g[i] == m[i]:
            ctx.nontrivial.add(vlib.classify(op, g[i]))
            toks = op.split()
            key = "wr " + (toks[1] if len(toks) > 1 else "")
            ctx.cov["distribution"][key] = ctx.cov["distribution"].get(key, 0) + 1
    if len(ctx.cov["samples"]) < 6 and len(ops) > 3:
        k = ctx.rng.randrange(1, len(ops) - 2)
        ctx.cov["samples"].append({"stream": label, "ops": ops[k:k + 3], "impl": g[k:k + 3], "model": m[k:k + 3]})
    d = divergence(g, m, len(ops))
    if d is None:
        r = vlib.first_diff(g, m, len(ops))
        if r is not None:
            drift = ctx.cov.setdefault("writer_representation_drift", {"lines": 0, "first": None})
            drift["lines"] += sum(1 for i in range(len(ops)) if i < len(g) and i < len(m) and g[i] != m[i])
            if drift["first"] is None:
                drift["first"] = {"stream": tag, "line": r, "op": ops[r][:120], "impl": g[r][:200], "model": m[r][:200]}
                ctx.notes.append(f"writer-representation-drift: {tag} line {r}: the implementation's len(buf) / backing array differs from the model's "
                                 f"while every observable agrees and w <= len(buf) holds; the policy-specific theorems (writeBytes_policy, writer_growth, "
                                 f"writer_growth_peak, grow_copies_everything) do not describe this tree, the abstract-writer theorems do "
                                 f"(VERIF_WRITER_REPR=strict turns this into a violation)")
        return 0
    if any("UNSUPPORTED" in x for x in m[:d + 1]):
        ctx.notes.append(f"{tag}: model left its float fragment at line {d} (generator problem, stream ignored from there)")
        return 0
    fail = ops[:d + 1]

    def still(cand):
        gg, mm = vlib.run_pair(ctx, cand, h, tag + "-shrink")
        dd = divergence(gg, mm, len(cand))
        return dd is not None and not any("UNSUPPORTED" in x or "bad-op" in x for x in (mm[:dd + 1] + gg[:dd + 1]))
    if len(fail) > 1:
        fail = vlib.shrink_sequence(ctx, h, fail, tag, still)
    gg, mm = vlib.run_pair(ctx, fail, h, tag + "-final")
    if divergence(gg, mm, len(fail)) is None:
        fail, gg, mm = ops[:d + 1], g[:d + 1], m[:d + 1]
    inv = _wr_inv_broken(gg)
    vlib.record_violation(ctx, "correspondence", {"ops": fail, "impl": gg, "model": mm, "stream": label, "faketime": False,
                                                  "explain": ("the reply writer reached a state with w > len(buf)" if inv is not None else
                                                              "first divergence between redis.Writer and the Lean model of it (Model/RespWriter.lean) on this (shrunk) call sequence"
                                                              + ("" if strict else ": an OBSERVABLE difference (reply / w / err / bytes handed to the connection)"))})
    return 1



def run_writer(ctx):
    quick = ctx.tier == "quick"
    h = vlib.build_harness(ctx)
    # the reply writer alone against its model: state, backing array and sink after every call
    writer_correspond(ctx, h, writer_edges(quick), "wr-edges",
                           "bare reply writer: payloads around 4096 and its multiples up to 1 MiB, buffer filled to the boundary then each kind of write, failing flushes, 10^4 writes without a flush (w, len(buf), err, backing array and sink compared after every call)")
    if ctx.violations:
        return
    for i in range(2 if quick else 6):
        writer_correspond(ctx, h, writer_stream(ctx.rng, 1500 if quick else 8000), f"wr-{i}",
                               "bare reply writer: random call sequences with payload sizes steered onto the free space and the multiples of 4096, failing flushes, new writers (w, len(buf), err, backing array and sink compared after every call)")
        if ctx.violations:
            return


def quit_cases():
    """QUIT on its own connection (the model: the reply is buffered, the socket closed before the flush - the client
    reads end-of-stream), other connections and the keyspace unaffected; QUIT with arguments; the commands without a
    keyspace effect around it"""
    c = lambda conn, *a: f"resp {conn} " + " ".join(hx(x) for x in a)
    ops = ["open a mem"] + [f"conn q{i}" for i in range(4)]
    ops += [c("q0", "SET", "k", "v"), c("q1", "WATCH", "k"), c("q1", "QUIT"), c("q1", "PING"), c("q0", "GET", "k"), c("q2", "CLIENT", "LIST"),
            c("q2", "QUIT", "now", "please"), c("q2", "GET", "k"), c("q0", "SET", "k", "w"), c("q3", "MULTI"), c("q3", "SAVE"),
            c("q3", "CONFIG", "GET", "databases"), c("q3", "CLIENT", "SETNAME", "x"), c("q3", "GEOADD", "g", "1.5", "2.5", "m"), c("q3", "GEOHASH", "g", "m"),
            c("q3", "EXEC"), c("q3", "ZSCORE", "g", "m"), c("q0", "INFO"), c("q0", "SAVE"), c("q0", "DBSIZE"), "dump"]
    return ops


def geo_table(ctx):
    """the float operations and geohash functions the GEO model is built from, evaluated by the real code and by the
    model on the same operands: limits, neighbours of the limits (one unit in the last place), powers of two,
    subnormals, infinities, halfway cases of the division, random bit patterns; every 26-bit corner of the bit
    interleaving; decimal text with fractions and exponents"""
    import struct
    from gen_api import fbits
    rng = ctx.rng
    quick = ctx.tier == "quick"
    def nxt(x, k=1):
        b = struct.unpack(">Q", struct.pack(">d", x))[0]
        return struct.unpack(">d", struct.pack(">Q", (b + k) % 2**64))[0]
    base = [0.0, -0.0, 1.0, -1.0, 2.0, 0.5, 3.0, 10.0, 180.0, -180.0, 360.0, 85.05112878, -85.05112878, 170.10225756, 90.0, -90.0, 67108864.0, 1e-300, 5e-324,
            2.2250738585072014e-308, 1.7976931348623157e308, float("inf"), float("-inf"), 13.361389, 38.115556, 0.1, 0.3, 1 / 3.0, 9007199254740992.0,
            9007199254740993.0, 4503599627370496.0, 9223372036854775808.0, 18446744073709551616.0, -9223372036854775808.0, 4294967296.0, 4294967295.5, 1e19, -1e19, 1e30]
    vals = []
    for v in base:
        vals += [v] if v in (float("inf"), float("-inf")) else [v, nxt(v), nxt(v, -1)]
    for _ in range(40 if quick else 400):
        vals.append(struct.unpack(">d", struct.pack(">Q", rng.getrandbits(64)))[0])
    vals = [v for v in vals if v == v]
    ops = ["geo consts"]
    for _ in range(700 if quick else 8000):
        a, b = rng.choice(vals), rng.choice(vals)
        ops.append(f"geo {rng.choice(['sub', 'div', 'div', 'add', 'mul'])} {fbits(a)} {fbits(b)}")
    for v in vals:
        ops += [f"geo u64 {fbits(v)}", f"geo u32 {fbits(v)}"]
    ints = [0, 1, 2, 2**26 - 1, 2**26, 2**32 - 1, 2**52 - 1, 2**52, 2**53, 2**53 + 1, 2**53 + 3, 2**54 - 1, 2**63 - 1, 2**63, 2**63 + 1025, 2**64 - 1, 2**64 - 1024, 3479099956230698]
    ints += [rng.getrandbits(rng.choice([20, 40, 52, 54, 63, 64])) for _ in range(60 if quick else 600)]
    for n in ints:
        ops += [f"geo fromu64 {n}", f"geo dec {n}", f"geo dil {n}", f"geo b32 {n}"]
    w32 = [0, 1, 2, 0x5555, 0xAAAA, 0xFFFF, 0x10000, 2**26 - 1, 2**26, 2**31, 2**32 - 1, 0x12345678, 0xDEADBEEF] + [rng.getrandbits(32) for _ in range(40 if quick else 400)]
    for _ in range(150 if quick else 2000):
        ops.append(f"geo il {rng.choice(w32)} {rng.choice(w32)}")
    lons = [-180.0, nxt(-180.0), nxt(-180.0, -1), 180.0, nxt(180.0), nxt(180.0, -1), 179.99999999999997, 0.0, -0.0, 13.361389, 15.087269, 200.0, -200.0, float("inf"), 1e-300]
    lats = [-85.05112878, nxt(-85.05112878), nxt(-85.05112878, -1), 85.05112878, nxt(85.05112878), nxt(85.05112878, -1), 0.0, 38.115556, 90.0, -90.0, 60.0, float("-inf")]
    for lo in lons:
        for la in lats:
            ops.append(f"geo enc {fbits(lo)} {fbits(la)}")
    for _ in range(150 if quick else 3000):
        ops.append(f"geo enc {fbits(rng.uniform(-181, 181))} {fbits(rng.uniform(-86, 86))}")
    texts = ["13.361389", "38.115556", "0.1", "-0.1", ".5", "5.", "1e1", "1E-3", "1.5e2", "85.05112878", "179.99999999999997", "0.000001", "123456789.123456789",
             "1e22", "1e23", "9007199254740993", "9007199254740992.5", "2.2250738585072011e-308", "4.9e-324", "2.4e-324", "2.5e-324", "1.7976931348623157e308",
             "1.7976931348623159e308", "1e309", "-1e309", "1e-400", "0e999", "1e99999", "+1.5", "-.5e1", "00.100", "1.", "-0.0", "0.30000000000000004",
             "0.1e-1", "1e", "e1", ".", "1.2.3", "--1", "1e+", "inf", "-Infinity", "nan", "abc", "", "1 "]
    for _ in range(60 if quick else 1500):
        k = rng.choice([1, 3, 8, 17, 25])
        texts.append(("-" if rng.random() < 0.3 else "") + str(rng.randrange(0, 10**rng.choice([1, 3, 9]))) + "." + "".join(rng.choice("0123456789") for _ in range(k))
                     + (rng.choice(["", "", "e5", "e-7", "E+20", "e-320"])))
    for t in texts:
        ops.append("geo parse " + hx(t))
    return ops


def run(ctx, proofs_ok):
    run_writer(ctx)
    if ctx.violations:
        return
    h0 = vlib.build_harness(ctx)
    vlib.correspond_stream(ctx, h0, big_replies(), "big", "replies larger than every internal buffer, on fresh and used connections, inside and outside MULTI")
    if ctx.violations:
        return
    vlib.correspond_stream(ctx, h0, geo_table(ctx), "geoarith", "float subtraction / division / conversions, decimal text, geohash encode / decode / interleave on limits, neighbours of limits and random operands (real code against the model's exact arithmetic)", shrink=False)
    if ctx.violations:
        return
    c1 = lambda *a: "resp c1 " + " ".join(hx(x) for x in a)
    geo_ops = ["open a mem", "conn c1", c1("SET", "s", "10"),
               c1("GEOADD", "gk", "0.0001", "0.0001", "ne", "-0.0001", "0.0001", "nw", "0.0001", "-0.0001", "se", "-0.0001", "-0.0001", "sw", "13.361389", "38.115556", "Palermo", "15.087269", "37.502669", "Catania")]
    geo_ops += geo_real_data_cases(c1) + ["dump"]
    vlib.correspond_stream(ctx, h0, geo_ops, "georeal", "GEO commands on real data (neighbouring boxes, far apart), every option combination: replies against the model (members and distances relational, coordinates as bit patterns, hashes exact)")
    if ctx.violations:
        return
    vlib.correspond_stream(ctx, h0, quit_cases(), "quit", "QUIT, CLIENT, CONFIG, INFO, SAVE and GEOADD / GEOHASH queued in MULTI: scripted cases on four connections")
    if ctx.violations:
        return
    apicheck.run_resp_streams(ctx, [
        {"label": "all command families on one connection (every reply token compared with the model)", "fams": ["strings", "keyspace", "lists", "hashes", "sets", "zs", "geo", "srv"],
         "n": (4000, 12000), "count": (3, 30), "conns": 1},
        {"label": "all command families with transactions on 2 connections", "fams": ["strings", "keyspace", "lists", "hashes", "sets", "zs", "geo", "srv", "tx"],
         "n": (3000, 10000), "count": (2, 20), "conns": 2},
    ])
    if ctx.violations:
        return
    # direct framing sweep on the implementation alone
    h = vlib.build_harness(ctx)
    names = command_names()
    ops = sweep(ctx, names)
    g, _m = vlib.run_pair(ctx, ops, h, "sweep")
    ctx.cov["evaluations"] += len(ops)
    ctx.cov["commands_in_dispatch_table"] = len(names)
    bad = 0
    for i, op in enumerate(ops):
        if not op.startswith("resp "):
            continue
        out = g[i] if i < len(g) else "<missing>"
        toks = out.split()
        name = bytes.fromhex(op.split()[2]).decode() if len(op.split()) > 2 else "?"
        ctx.nontrivial.add(("sweep", name, len(op.split()) - 3, toks[0][:2] if toks else ""))
        if "!" in out or not toks or not one_value(toks):
            bad += 1
            vlib.record_violation(ctx, "framing", {"ops": ops[:8] + [op], "impl": [out], "model": [], "command": name,
                                                   "explain": "the implementation's reply to this command is not exactly one complete RESP value (tokens read before the pipelined marker)"})
            break
    ctx.cov["framing_sweep_cases"] = sum(1 for o in ops if o.startswith("resp "))
    if bad:
        return
    ops = special_sweep(ctx, names)
    g, _m = vlib.run_pair(ctx, ops, h, "sweep2")
    ctx.cov["evaluations"] += len(ops)
    for i, op in enumerate(ops):
        if not op.startswith("resp "):
            continue
        out = g[i] if i < len(g) else "<missing>"
        toks = out.split()
        name = bytes.fromhex(op.split()[2]).decode() if len(op.split()) > 2 else "?"
        ctx.nontrivial.add(("sweep2", name, len(op.split()) - 3, toks[0][:2] if toks else ""))
        if "!" in out or not toks or not one_value(toks):
            vlib.record_violation(ctx, "framing", {"ops": ops[:8] + ops[max(8, i - 2):i + 1], "impl": [out], "model": [], "command": name,
                                                   "explain": "the implementation's reply to this command (queued in MULTI / run by EXEC, or a GEO command on real data) is not exactly one complete RESP value (tokens read before the pipelined marker)"})
            break
    ctx.cov["framing_sweep_cases_multi_and_geo"] = sum(1 for o in ops if o.startswith("resp "))
