"""C16 — exactly one well-formed RESP reply per command, in order (correspondence + direct framing check).

Two parts: (1) model ≈ implementation on command streams of every family (the model's replies are
token lists, so a second reply or a truncated array is a divergence unless the model predicts it);
(2) a direct sweep on the implementation alone: every command name of handler.go's dispatch table x
arities 0..8 x operand classes x prior key types, each command followed by a pipelined ECHO marker;
the tokens read before the marker must be exactly one complete RESP value."""
import re
import vlib
from checks import apicheck
from gen_api import hx

MODELLED_SKIP = {"QUIT", "BLPOP", "BRPOP", "MULTI", "EXEC", "DISCARD", "SUBSCRIBE"}   # QUIT: its reply never arrives (FINDINGS.md D-1; scripted `quit` cases)
OPERANDS = [b"k", b"1", b"-1", b"0", b"abc", b"", b"2", b"(1", b"inf", b"NX", b"COUNT", b"MATCH", b"LIMIT", b"WITHSCORES", b"BEFORE", b"5", b"x y", b"\r\n"]


def command_names():
    src = open(f"{vlib.REPO}/handler.go").read()
    body = src[src.index("func GetCommand("):]
    body = body[:body.index("\n}\n")]
    return re.findall(r'case "([A-Z]+)":', body)


def one_value(tokens):
    """tokens: canonical token strings of the harness. True iff exactly one complete RESP value."""
    def size(i):
        if i >= len(tokens):
            return -1
        t = tokens[i]
        if t.startswith("*") and t != "*N":
            n = int(t[1:])
            k = 1
            for _ in range(n):
                s = size(i + k)
                if s < 0:
                    return -1
                k += s
            return k
        return 1
    return size(0) == len(tokens)


def sweep(ctx, names):
    rng = ctx.rng
    quick = ctx.tier == "quick"
    ops = ["open a mem", "conn c1"]
    setup = [("SET", "s", "10"), ("RPUSH", "l", "a", "b", "c"), ("HSET", "h", "f", "1", "g", "2"), ("SADD", "t", "a", "b"), ("ZADD", "z", "1", "a", "2", "b")]
    c = lambda *a: "resp c1 " + " ".join(hx(x) for x in a)
    ops += [c(*s) for s in setup]
    keys = [b"s", b"l", b"h", b"t", b"z", b"nokey"]
    cases = []
    for name in names:
        if name in MODELLED_SKIP:
            continue
        for arity in range(0, 9):
            reps = 2 if quick else 8
            for _ in range(reps):
                args = []
                for j in range(arity):
                    args.append(rng.choice(keys) if j == 0 and rng.random() < 0.8 else rng.choice(OPERANDS + keys))
                cases.append((name, args))
    rng.shuffle(cases)
    for name, args in cases:
        ops.append(c(name, *args))
        if name in ("FLUSHDB", "FLUSHALL") or rng.random() < 0.02:
            ops += [c(*s) for s in setup]
    return ops


def geo_real_data_cases(c):
    """the GEO commands on a key whose members lie in neighbouring geohash boxes and far apart, with every option
    combination"""
    ops = []
    for radius, unit in (("1", "km"), ("100", "m"), ("500", "km"), ("0", "km"), ("200", "mi")):
        for center in (("0", "0"), ("15", "37")):
            for opts in ([], ["WITHDIST"], ["WITHCOORD"], ["WITHHASH"], ["WITHCOORD", "WITHDIST", "WITHHASH"], ["COUNT", "1"], ["COUNT", "2", "ASC"], ["COUNT", "3", "DESC", "WITHDIST"],
                         ["COUNT", "1", "ANY"], ["ASC"], ["DESC", "WITHCOORD"], ["COUNT", "0"], ["COUNT", "-1"], ["COUNT"], ["WITHDIST", "COUNT", "1", "WITHCOORD"]):
                ops.append(c("GEORADIUS", "gk", *center, radius, unit, *opts))
        for member in ("ne", "Palermo", "nobody"):
            for opts in ([], ["WITHDIST"], ["WITHCOORD", "WITHDIST", "WITHHASH"], ["COUNT", "1"], ["COUNT", "2", "DESC", "WITHDIST"], ["WITHDIST", "KM"]):
                ops.append(c("GEORADIUSBYMEMBER", "gk", member, radius, unit, *opts))
    for cmd in (("GEOPOS", "gk", "ne", "nobody", "Palermo"), ("GEOHASH", "gk", "ne", "nobody"), ("GEODIST", "gk", "ne", "sw"), ("GEODIST", "gk", "ne", "sw", "km"), ("GEODIST", "gk", "ne", "nobody"),
                ("GEODIST", "gk", "ne", "sw", "parsec"), ("GEOPOS", "nokey", "x"), ("GEOPOS", "s", "x"), ("GEORADIUS", "s", "0", "0", "1", "km"), ("GEORADIUS", "nokey", "0", "0", "1", "km", "COUNT", "1")):
        ops.append(c(*cmd))
    return ops


def special_sweep(ctx, names):
    """(1) every command of the dispatch table queued inside MULTI and run by EXEC (a handler that replies
    outside the queued closure answers twice at queue time and leaves a hole in EXEC's array);
    (2) the GEO commands on a key whose members lie in neighbouring geohash boxes and far apart, with every
    option combination. Checked on the implementation alone: the tokens read before the pipelined marker are
    exactly one complete RESP value (the same GEO cases are compared with the model in the `georeal` stream)."""
    rng = ctx.rng
    c = lambda *a: "resp c1 " + " ".join(hx(x) for x in a)
    setup = [("SET", "s", "10"), ("RPUSH", "l", "a", "b", "c"), ("HSET", "h", "f", "1", "g", "2"), ("SADD", "t", "a", "b"), ("ZADD", "z", "1", "a", "2", "b"),
             ("GEOADD", "gk", "0.0001", "0.0001", "ne", "-0.0001", "0.0001", "nw", "0.0001", "-0.0001", "se", "-0.0001", "-0.0001", "sw", "13.361389", "38.115556", "Palermo", "15.087269", "37.502669", "Catania")]
    ops = ["open a mem", "conn c1"] + [c(*x) for x in setup]
    args_for = {1: [["s"], ["l"], ["z"], ["gk"]], 2: [["s", "1"], ["z", "a"], ["l", "0"]], 3: [["s", "0", "1"], ["z", "0", "-1"], ["h", "f", "1"], ["gk", "ne", "sw"]]}
    for name in names:
        if name in ("MULTI", "EXEC", "DISCARD", "WATCH", "QUIT", "BLPOP", "BRPOP", "FLUSHDB", "FLUSHALL"):
            continue
        for arity in (0, 1, 2, 3):
            for args in (args_for.get(arity) or [[]])[: (2 if ctx.tier == "quick" else 4)]:
                ops += [c("MULTI"), c(name, *args), c("EXEC")]
    ops += geo_real_data_cases(c)
    return ops


def big_replies():
    """replies larger than every internal buffer (4 KiB reader buffer, the writer's growing buffer), each
    on a fresh connection and again on a used one: GET of 4095..100000 bytes, MGET of several large
    values, LRANGE / SMEMBERS / HGETALL / ZRANGE WITHSCORES of thousands of elements, all inside
    and outside MULTI, each followed by a small command whose reply must still be in place"""
    c = lambda conn, *a: f"resp {conn} " + " ".join(a)
    ops = ["open a mem"]
    sizes = [4095, 4096, 4097, 8185, 8186, 8187, 8192, 16384, 20000, 65536, 100000]
    ops += [f"conn b{i}" for i in range(len(sizes) + 4)]
    for i, n in enumerate(sizes):
        k = hx(b"big%d" % n)
        ops += [c("b0", hx(b"SET"), k, "r%dx%02x" % (n, 97 + i % 26))]
        ops += [c(f"b{i+1}", hx(b"GET"), k), c(f"b{i+1}", hx(b"STRLEN"), k), c(f"b{i+1}", hx(b"GET"), k), c(f"b{i+1}", hx(b"ECHO"), hx(b"after"))]
    two = [hx(b"big8186"), hx(b"big65536")]
    ops += [c("b0", hx(b"MGET"), *two, hx(b"nokey"), two[0]), c("b0", hx(b"PING"))]
    ops += [c("b12", hx(b"MULTI")), c("b12", hx(b"GET"), two[1]), c("b12", hx(b"GET"), two[0]), c("b12", hx(b"STRLEN"), two[0]), c("b12", hx(b"EXEC")), c("b12", hx(b"PING"))]
    for j in range(0, 3000, 250):
        ops.append(c("b0", hx(b"RPUSH"), hx(b"biglist"), *[hx(b"element-%05d" % x) for x in range(j, j + 250)]))
        ops.append(c("b0", hx(b"SADD"), hx(b"bigset"), *[hx(b"member-%05d" % x) for x in range(j, j + 250)]))
        ops.append(c("b0", hx(b"HSET"), hx(b"bighash"), *[hx((b"f%05d" if y == 0 else b"value-%05d") % x) for x in range(j, j + 250) for y in (0, 1)]))
        ops.append(c("b0", hx(b"ZADD"), hx(b"bigz"), *[t for x in range(j, j + 250) for t in (hx(b"%d" % x), hx(b"m%05d" % x))]))
    ops += [c("b13", hx(b"LRANGE"), hx(b"biglist"), hx(b"0"), hx(b"-1")), c("b13", hx(b"LLEN"), hx(b"biglist")),
            c("b13", hx(b"SMEMBERS"), hx(b"bigset")), c("b13", hx(b"SCARD"), hx(b"bigset")),
            c("b14", hx(b"HGETALL"), hx(b"bighash")), c("b14", hx(b"HLEN"), hx(b"bighash")),
            c("b14", hx(b"ZRANGE"), hx(b"bigz"), hx(b"0"), hx(b"-1"), hx(b"WITHSCORES")), c("b14", hx(b"ZCARD"), hx(b"bigz")),
            c("b14", hx(b"KEYS"), hx(b"*")), c("b14", hx(b"ECHO"), "r30000x7a"), c("b14", hx(b"PING"))]
    return ops


def quit_cases():
    """QUIT on its own connection (the model: the reply is buffered, the socket closed before the flush - the client
    reads end-of-stream), other connections and the keyspace unaffected; QUIT with arguments; the commands without a
    keyspace effect around it"""
    c = lambda conn, *a: f"resp {conn} " + " ".join(hx(x) for x in a)
    ops = ["open a mem"] + [f"conn q{i}" for i in range(4)]
    ops += [c("q0", "SET", "k", "v"), c("q1", "WATCH", "k"), c("q1", "QUIT"), c("q1", "PING"), c("q0", "GET", "k"), c("q2", "CLIENT", "LIST"),
            c("q2", "QUIT", "now", "please"), c("q2", "GET", "k"), c("q0", "SET", "k", "w"), c("q3", "MULTI"), c("q3", "SAVE"),
            c("q3", "CONFIG", "GET", "databases"), c("q3", "CLIENT", "SETNAME", "x"), c("q3", "GEOADD", "g", "1.5", "2.5", "m"), c("q3", "GEOHASH", "g", "m"),
            c("q3", "EXEC"), c("q3", "ZSCORE", "g", "m"), c("q0", "INFO"), c("q0", "SAVE"), c("q0", "DBSIZE"), "dump"]
    return ops


def geo_table(ctx):
    """the float operations and geohash functions the GEO model is built from, evaluated by the real code and by the
    model on the same operands: limits, neighbours of the limits (one unit in the last place), powers of two,
    subnormals, infinities, halfway cases of the division, random bit patterns; every 26-bit corner of the bit
    interleaving; decimal text with fractions and exponents"""
    import struct
    from gen_api import fbits
    rng = ctx.rng
    quick = ctx.tier == "quick"
    def nxt(x, k=1):
        b = struct.unpack(">Q", struct.pack(">d", x))[0]
        return struct.unpack(">d", struct.pack(">Q", (b + k) % 2**64))[0]
    base = [0.0, -0.0, 1.0, -1.0, 2.0, 0.5, 3.0, 10.0, 180.0, -180.0, 360.0, 85.05112878, -85.05112878, 170.10225756, 90.0, -90.0, 67108864.0, 1e-300, 5e-324,
            2.2250738585072014e-308, 1.7976931348623157e308, float("inf"), float("-inf"), 13.361389, 38.115556, 0.1, 0.3, 1 / 3.0, 9007199254740992.0,
            9007199254740993.0, 4503599627370496.0, 9223372036854775808.0, 18446744073709551616.0, -9223372036854775808.0, 4294967296.0, 4294967295.5, 1e19, -1e19, 1e30]
    vals = []
    for v in base:
        vals += [v] if v in (float("inf"), float("-inf")) else [v, nxt(v), nxt(v, -1)]
    for _ in range(40 if quick else 400):
        vals.append(struct.unpack(">d", struct.pack(">Q", rng.getrandbits(64)))[0])
    vals = [v for v in vals if v == v]
    ops = ["geo consts"]
    for _ in range(700 if quick else 8000):
        a, b = rng.choice(vals), rng.choice(vals)
        ops.append(f"geo {rng.choice(['sub', 'div', 'div', 'add', 'mul'])} {fbits(a)} {fbits(b)}")
    for v in vals:
        ops += [f"geo u64 {fbits(v)}", f"geo u32 {fbits(v)}"]
    ints = [0, 1, 2, 2**26 - 1, 2**26, 2**32 - 1, 2**52 - 1, 2**52, 2**53, 2**53 + 1, 2**53 + 3, 2**54 - 1, 2**63 - 1, 2**63, 2**63 + 1025, 2**64 - 1, 2**64 - 1024, 3479099956230698]
    ints += [rng.getrandbits(rng.choice([20, 40, 52, 54, 63, 64])) for _ in range(60 if quick else 600)]
    for n in ints:
        ops += [f"geo fromu64 {n}", f"geo dec {n}", f"geo dil {n}", f"geo b32 {n}"]
    w32 = [0, 1, 2, 0x5555, 0xAAAA, 0xFFFF, 0x10000, 2**26 - 1, 2**26, 2**31, 2**32 - 1, 0x12345678, 0xDEADBEEF] + [rng.getrandbits(32) for _ in range(40 if quick else 400)]
    for _ in range(150 if quick else 2000):
        ops.append(f"geo il {rng.choice(w32)} {rng.choice(w32)}")
    lons = [-180.0, nxt(-180.0), nxt(-180.0, -1), 180.0, nxt(180.0), nxt(180.0, -1), 179.99999999999997, 0.0, -0.0, 13.361389, 15.087269, 200.0, -200.0, float("inf"), 1e-300]
    lats = [-85.05112878, nxt(-85.05112878), nxt(-85.05112878, -1), 85.05112878, nxt(85.05112878), nxt(85.05112878, -1), 0.0, 38.115556, 90.0, -90.0, 60.0, float("-inf")]
    for lo in lons:
        for la in lats:
            ops.append(f"geo enc {fbits(lo)} {fbits(la)}")
    for _ in range(150 if quick else 3000):
        ops.append(f"geo enc {fbits(rng.uniform(-181, 181))} {fbits(rng.uniform(-86, 86))}")
    texts = ["13.361389", "38.115556", "0.1", "-0.1", ".5", "5.", "1e1", "1E-3", "1.5e2", "85.05112878", "179.99999999999997", "0.000001", "123456789.123456789",
             "1e22", "1e23", "9007199254740993", "9007199254740992.5", "2.2250738585072011e-308", "4.9e-324", "2.4e-324", "2.5e-324", "1.7976931348623157e308",
             "1.7976931348623159e308", "1e309", "-1e309", "1e-400", "0e999", "1e99999", "+1.5", "-.5e1", "00.100", "1.", "-0.0", "0.30000000000000004",
             "0.1e-1", "1e", "e1", ".", "1.2.3", "--1", "1e+", "inf", "-Infinity", "nan", "abc", "", "1 "]
    for _ in range(60 if quick else 1500):
        k = rng.choice([1, 3, 8, 17, 25])
        texts.append(("-" if rng.random() < 0.3 else "") + str(rng.randrange(0, 10**rng.choice([1, 3, 9]))) + "." + "".join(rng.choice("0123456789") for _ in range(k))
                     + (rng.choice(["", "", "e5", "e-7", "E+20", "e-320"])))
    for t in texts:
        ops.append("geo parse " + hx(t))
    return ops


def run(ctx, proofs_ok):
    h0 = vlib.build_harness(ctx)
    vlib.correspond_stream(ctx, h0, big_replies(), "big", "replies larger than every internal buffer, on fresh and used connections, inside and outside MULTI")
    if ctx.violations:
        return
    vlib.correspond_stream(ctx, h0, geo_table(ctx), "geoarith", "float subtraction / division / conversions, decimal text, geohash encode / decode / interleave on limits, neighbours of limits and random operands (real code against the model's exact arithmetic)", shrink=False)
    if ctx.violations:
        return
    c1 = lambda *a: "resp c1 " + " ".join(hx(x) for x in a)
    geo_ops = ["open a mem", "conn c1", c1("SET", "s", "10"),
               c1("GEOADD", "gk", "0.0001", "0.0001", "ne", "-0.0001", "0.0001", "nw", "0.0001", "-0.0001", "se", "-0.0001", "-0.0001", "sw", "13.361389", "38.115556", "Palermo", "15.087269", "37.502669", "Catania")]
    geo_ops += geo_real_data_cases(c1) + ["dump"]
    vlib.correspond_stream(ctx, h0, geo_ops, "georeal", "GEO commands on real data (neighbouring boxes, far apart), every option combination: replies against the model (members and distances relational, coordinates as bit patterns, hashes exact)")
    if ctx.violations:
        return
    vlib.correspond_stream(ctx, h0, quit_cases(), "quit", "QUIT, CLIENT, CONFIG, INFO, SAVE and GEOADD / GEOHASH queued in MULTI: scripted cases on four connections")
    if ctx.violations:
        return
    apicheck.run_resp_streams(ctx, [
        {"label": "all command families on one connection (every reply token compared with the model)", "fams": ["strings", "keyspace", "lists", "hashes", "sets", "zs", "geo", "srv"],
         "n": (4000, 12000), "count": (3, 30), "conns": 1},
        {"label": "all command families with transactions on 2 connections", "fams": ["strings", "keyspace", "lists", "hashes", "sets", "zs", "geo", "srv", "tx"],
         "n": (3000, 10000), "count": (2, 20), "conns": 2},
    ])
    if ctx.violations:
        return
    # direct framing sweep on the implementation alone
    h = vlib.build_harness(ctx)
    names = command_names()
    ops = sweep(ctx, names)
    g, _m = vlib.run_pair(ctx, ops, h, "sweep")
    ctx.cov["evaluations"] += len(ops)
    ctx.cov["commands_in_dispatch_table"] = len(names)
    bad = 0
    for i, op in enumerate(ops):
        if not op.startswith("resp "):
            continue
        out = g[i] if i < len(g) else "<missing>"
        toks = out.split()
        name = bytes.fromhex(op.split()[2]).decode() if len(op.split()) > 2 else "?"
        ctx.nontrivial.add(("sweep", name, len(op.split()) - 3, toks[0][:2] if toks else ""))
        if "!" in out or not toks or not one_value(toks):
            bad += 1
            vlib.record_violation(ctx, "framing", {"ops": ops[:8] + [op], "impl": [out], "model": [], "command": name,
                                                   "explain": "the implementation's reply to this command is not exactly one complete RESP value (tokens read before the pipelined marker)"})
            break
    ctx.cov["framing_sweep_cases"] = sum(1 for o in ops if o.startswith("resp "))
    if bad:
        return
    ops = special_sweep(ctx, names)
    g, _m = vlib.run_pair(ctx, ops, h, "sweep2")
    ctx.cov["evaluations"] += len(ops)
    for i, op in enumerate(ops):
        if not op.startswith("resp "):
            continue
        out = g[i] if i < len(g) else "<missing>"
        toks = out.split()
        name = bytes.fromhex(op.split()[2]).decode() if len(op.split()) > 2 else "?"
        ctx.nontrivial.add(("sweep2", name, len(op.split()) - 3, toks[0][:2] if toks else ""))
        if "!" in out or not toks or not one_value(toks):
            vlib.record_violation(ctx, "framing", {"ops": ops[:8] + ops[max(8, i - 2):i + 1], "impl": [out], "model": [], "command": name,
                                                   "explain": "the implementation's reply to this command (queued in MULTI / run by EXEC, or a GEO command on real data) is not exactly one complete RESP value (tokens read before the pipelined marker)"})
            break
    ctx.cov["framing_sweep_cases_multi_and_geo"] = sum(1 for o in ops if o.startswith("resp "))
