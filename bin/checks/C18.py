"""C18 — blocking pops hand each pushed element to exactly one waiter, or time out.

Proof: Props/C18.lean over Model/Block.lean (the wake-up protocol: register first, one-place
wake-up buffer, non-blocking notify, rescan after every wake-up): a waiter only sleeps when it has
looked at every key after the last push to it; a push step is always enabled; null only from an
armed timer. Below it, Model/BlockProg.lean is the CODE of blockingPop / addBlockKeys / removeBlockingKeys /
notifyBlockingKey and the push around it as an interleaving semantics (pcs, one transition per mutex / channel
operation); Props/C18.lean §9 proves that every schedule emits a run of the protocol (`blockprog_refines_block`), that
the hook-call order is a run of the token-counting relation (`blockprog_hook_order_refines_loose`), and on program
states: no missed wake-up from the push side, unregistration on every exit path (panic included), no lock held while
blocked. Tie: the wake-up steps the real code reports (register, try, block, wake, timeout,
notify, unregister) must be steps of the protocol model AND the next event of the corresponding thread of the
program model (`bev` / `bpp` lines: registry lock discipline, cList order, loop structure; a self-test keeps the
replay from becoming vacuous); the same runs also validate the locking protocol trace (`pev` lines). Search: the `bpop` scenario on the real code - immediate pops (first
key, correct end), timeouts (whole and fractional seconds, over TCP), timeout 0, BRPOP woken by a
multi-element push, hand-off of 24 elements to 5 waiters with short timeouts while pushes arrive
over the embedded API and over TCP (each element exactly once, pushes prompt and never an error)."""
import subprocess
import vlib
from checks import conc

# the replay of the `bev` trace against the PROGRAM model (Model/BlockProg.lean, Driver/BlockProgOps.lean) must not be
# vacuous: a hand-written accepted trace, and variants that the protocol model accepts but the code cannot produce
_GOOD = """bpp call 1 0 a b
bev reg 1 a
bev reg 1 b
bev try 1 a 0
bev try 1 b 0
bev block 1 0
bpp call 3 1 b
bev reg 3 b
bev try 3 b 0
bev block 3 1
bpp b 2 b
bev notify 3 b
bev notify 1 b
bpp e 2 b
bev wake 3
bev try 3 b 1
bev unreg 3 b
bev wake 1
bev try 1 a 0
bev try 1 b 0
bev block 1 0""".split("\n")


def _variants():
    g = _GOOD
    yield "accepted", g, None
    # a round that ends without offering a wake-up to a registered waiter
    v = [l for l in g if l != "bev notify 1 b"]
    yield "round-skips-a-waiter", v, v.index("bpp e 2 b")
    # wake-ups offered in another order than the cList (most recent registration first)
    v = list(g); i = v.index("bev notify 3 b"); v[i], v[i + 1] = v[i + 1], v[i]
    yield "round-out-of-list-order", v, i
    # a registration inside a wake-up round (the registry lock is held shared)
    v = [l for l in g if " 3 " not in l + " " or l.startswith("bpp b")]
    i = v.index("bpp b 2 b"); v[i + 1:i + 1] = ["bpp call 3 1 b", "bev reg 3 b"]
    yield "registration-inside-a-round", v, i + 2
    # a wake-up round inside a registration (the registry lock is held exclusively)
    v = list(g); i = v.index("bev reg 1 b"); v[i:i] = ["bpp b 9 a"]
    yield "round-inside-a-registration", v, i
    # unregistration out of argument order (the non-waiting form: no element, no wait)
    v = ["bpp call 5 -1 x y", "bev reg 5 x", "bev reg 5 y", "bev try 5 x 0", "bev try 5 y 0", "bev abort 5",
         "bev unreg 5 y", "bev unreg 5 x"]
    yield "unreg-out-of-order", v, 6


def replay_selftest(ctx):
    for name, lines, want in _variants():
        p = subprocess.run([f"{vlib.LEAN}/.lake/build/bin/driver"], input="\n".join(lines) + "\n", capture_output=True, text=True, timeout=120)
        out = p.stdout.split("\n")[:len(lines)]
        bad = [j for j, o in enumerate(out) if o != "ok"]
        got = bad[0] if bad else None
        ctx.cov["evaluations"] += 1
        ctx.cov["distribution"][f"replay-selftest:{name}"] = ctx.cov["distribution"].get(f"replay-selftest:{name}", 0) + 1
        ok = got == want and (want is None or out[want].startswith("rejected-prog"))
        if not ok:
            vlib.record_violation(ctx, "protocol-trace", {
                "scenario": "replay-selftest:" + name, "expected_first_rejection": want, "got": got,
                "driver_says": out[got] if got is not None else "ok", "ops": lines,
                "explain": "the replay of blocking-pop traces against the program model (Model/BlockProg.lean) no longer separates a trace the code can produce from one it cannot"},
                no_input=True)
            return False
    return True


def run(ctx, proofs_ok):
    q = ctx.tier == "quick"
    if not replay_selftest(ctx):
        return
    plan = [("bpop", 3 if q else 12, w) for w in ((0, 30) if q else (0, 10, 30, 60))]
    # a waiter is woken whatever blocking pops came and went before it (fresh instance per history x number of waiters)
    plan.append(("bpop-history", 1 if q else 6, 0))
    conc.run_scenarios(ctx, plan, "blocking pop scenarios")
