"""C18 — blocking pops hand each pushed element to exactly one waiter, or time out.

Proof: Props/C18.lean over Model/Block.lean (the wake-up protocol: register first, one-place
wake-up buffer, non-blocking notify, rescan after every wake-up): a waiter only sleeps when it has
looked at every key after the last push to it; a push step is always enabled; null only from an
armed timer. Tie: the wake-up steps the real code reports (register, try, block, wake, timeout,
notify, unregister) must be steps of the model (`bev` lines; the same runs also validate the locking
protocol trace, `pev` lines). Search: the `bpop` scenario on the real code - immediate pops (first
key, correct end), timeouts (whole and fractional seconds, over TCP), timeout 0, BRPOP woken by a
multi-element push, hand-off of 24 elements to 5 waiters with short timeouts while pushes arrive
over the embedded API and over TCP (each element exactly once, pushes prompt and never an error)."""
from checks import conc


def run(ctx, proofs_ok):
    q = ctx.tier == "quick"
    plan = [("bpop", 3 if q else 12, w) for w in ((0, 30) if q else (0, 10, 30, 60))]
    # a waiter is woken whatever blocking pops came and went before it (fresh instance per history x number of waiters)
    plan.append(("bpop-history", 1 if q else 6, 0))
    conc.run_scenarios(ctx, plan, "blocking pop scenarios")
