"""C05 — concurrent single-key commands are linearizable: no lost or torn updates.

Proof: Props/C05.lean over Model/Proto.lean (mutual exclusion on records, a validated record is and
stays the record registered under its key, creators of a missing key are serialized through one
placeholder). Tie: every protocol step of the real code, recorded by the verifTrace hook while the
scenarios run, must be a step of the model. Search: single-key scenarios (fresh-key increments and
pushes, pops racing with pushes while the list is emptied and unlinked, create/delete churn), through
the embedded API and over TCP, with and without widened race windows; `lin-history` / `tcp-lin-history`:
recorded histories (invocation and response instants of every call of six clients on a string, a list and a
set key that are created, emptied and deleted on the way, while eviction passes run) checked per key against
the sequential semantics with a linearizability checker (porcupine)."""
from checks import conc


def run(ctx, proofs_ok):
    q = ctx.tier == "quick"
    r = 25 if q else 200
    plan = []
    for widen in ((0, 25) if q else (0, 10, 30, 60)):
        for sc in ("incr-fresh", "push-pop", "push-vs-empty", "create-delete", "tcp-incr", "expired-recreate", "lin-history", "tcp-lin-history"):
            rounds = r if widen < 50 else max(10, r // 4)
            if sc == "expired-recreate":
                rounds *= 6
            if sc == "tcp-lin-history":
                rounds = max(5, rounds // 3)
            plan.append((sc, rounds, widen))
    conc.run_scenarios(ctx, plan, "single-key scenarios (embedded API and TCP)", txprog=True, prog_replay=False)
