"""C13 — Pebble crash consistency: recover real, recent, untorn values at any kill point.

Proof: Props/C13.lean over Model/Crash.lean (the sequence of backend calls each persistence step
issues; a crash keeps an arbitrary prefix of it; reopening picks one entry per name): after any
prefix, every key recovers as the state it had at the previous completed persist or the state being
written - never absent, never mixed.
Tie + search on the real code: a command stream with SAVE / eviction steps runs on a Pebble
directory while the harness's storage wrapper kills the process (SIGKILL: nothing is flushed or
closed) right before or right after its n-th mutating backend call, for every n of the run (quick: a
sample); the directory is then opened by a fresh process. Oracle (implementation only): the logical
dumps recorded after every command of an uninterrupted run of the same stream. Every recovered key
must equal a state it had at some moment between the last completed SAVE / eviction pass and the kill;
a key that was absent during that whole window must be absent. Then the stream continues on the
recovered directory, is killed again and recovered again (repeated cycles)."""
import os, re, shutil, signal, subprocess
import vlib, gen_api
from gen_api import hx


def parse_dump(line):
    """'ldump k@exp{...} ...' -> {key: 'exp{...}'}"""
    out = {}
    for tok in line.split()[1:]:
        m = re.match(r"^([^@]+)@(-?\d+)\{(.*)\}$", tok)
        if m:
            out[m.group(1)] = m.group(2) + "{" + m.group(3) + "}"
    return out


def gen_stream(rng, n):
    """writes over a few keys of every type, far-future / no deadlines only, SAVE and eviction steps"""
    g = gen_api.G(rng, realtime=True)
    ops = []
    keys = {"str": ["7331", "7332"], "list": ["6c31"], "hash": ["6831"], "set": ["7431"], "zset": ["7a31"]}
    far = "4102444800000"
    for i in range(n):
        x = rng.random()
        if x < 0.12:
            ops.append("flush")
        elif x < 0.20:
            ops.append("gc")
        elif x < 0.30:
            k = rng.choice(sum(keys.values(), []))
            ops.append(rng.choice([f"api Del {k}", f"api ExpireAt {k} {far}", f"api Persist {k}", f"api ExpireAt {k} {int(far) + rng.randrange(1, 5) * 1000}"]))
        elif x < 0.35:
            a, b = rng.sample(keys["str"] + ["7333"], 2)
            ops.append(f"api Rename {a} {b}")
        else:
            fam = rng.choice(list(keys))
            k = rng.choice(keys[fam])
            v = hx(bytes(rng.randrange(97, 123) for _ in range(rng.choice([1, 3, 200]))))
            if fam == "str":
                ops.append(rng.choice([f"api Set {k} {v} 0", f"api Append {k} {v}", f"api Incr 7333"]))
            elif fam == "list":
                ops.append(rng.choice([f"api RPush {k} {v}", f"api LPush {k} {v} {v}", f"api LPop {k} 1", f"api LTrim {k} 0 2"]))
            elif fam == "hash":
                ops.append(rng.choice([f"api HSet {k} 66 {v}", f"api HSet {k} {v[:6]} {v}", f"api HDel {k} 66"]))
            elif fam == "set":
                ops.append(rng.choice([f"api SAdd {k} {v}", f"api SAdd {k} 61 62", f"api SRem {k} 61", f"api SPop {k} 1"]))
            else:
                ops.append(rng.choice([f"api ZAdd {k} {v[:8]} 3ff0000000000000", f"api ZAdd {k} 61 4000000000000000", f"api ZRem {k} 61", f"api ZIncrBy {k} 61 3ff0000000000000"]))
    return ops


def run_h(ctx, h, lines, tag, expect_kill=False):
    opsf, outf = f"{ctx.work}/{tag}.ops", f"{ctx.work}/{tag}.out"
    open(opsf, "w").write("\n".join(lines) + "\n")
    if os.path.exists(outf):
        os.remove(outf)
    env = dict(vlib.GOENV, VERIF_NOCOMPACT="1")
    p = subprocess.run([h, "-i", opsf, "-o", outf], env=env, capture_output=True, text=True, errors="replace", timeout=600)
    out = open(outf).read().split("\n") if os.path.exists(outf) else []
    if out and out[-1] == "":
        out.pop()
    return p.returncode, out, p.stderr


def interleave(ops):
    out = []
    for o in ops:
        out += [o, "ldump"]
    return out


def check_recovered(rec, hist, lo, hi):
    """rec: recovered {key: state}; hist[j] = dump after op j (hist[0] = before the first op)"""
    keys = set(rec)
    for j in range(lo, hi + 1):
        keys |= set(hist[j])
    for k in sorted(keys):
        allowed = {hist[j].get(k) for j in range(lo, hi + 1)}
        if rec.get(k) not in allowed:
            return k, rec.get(k), allowed
    return None


def scripted_stream():
    """every persistence path once, in a fixed order: first write of a key of every type, re-write of a
    changed value, re-write under a changed deadline (entries are addressed by name AND deadline: the old
    entry has to go and the new one has to be there - in which order is what a kill in between decides),
    a deadline removed, rename, delete, eviction passes in between"""
    far = 4102444800000
    keys = ["7331", "6c31", "6831", "7431", "7a31"]
    ops = ["api Set 7331 7631 0", "api RPush 6c31 61 62", "api HSet 6831 66 7631", "api SAdd 7431 61 62", "api ZAdd 7a31 61 3ff0000000000000", "flush"]
    ops += [f"api ExpireAt {k} {far}" for k in keys] + ["flush"]
    ops += ["api Append 7331 7a", "api RPush 6c31 63", f"api ExpireAt 6831 {far + 5000}", "gc"]
    ops += [f"api ExpireAt {k} {far + 9000}" for k in keys] + ["gc", "api HSet 6831 67 7632", "flush"]
    ops += [f"api Persist {k}" for k in keys] + ["flush", "api Rename 7331 7332", "flush", f"api ExpireAt 7332 {far}", "api Rename 7332 7331", "flush"]
    ops += ["api Del 6c31", "api SPop 7431 2", "flush", "api Set 7331 7639 0", f"api ExpireAt 7331 {far + 1000}", "flush"]
    return ops


def one_stream(ctx, h, si, n_ops, kill_points, cycles):
    rng = ctx.rng
    ops = scripted_stream() if si == "s" else gen_stream(rng, n_ops)
    d0 = f"{ctx.work}/p{si}-dry"
    shutil.rmtree(d0, ignore_errors=True)
    rc, out, se = run_h(ctx, h, [f"open a pebble {d0}"] + interleave(ops) + ["storecalls"], f"dry{si}")
    shutil.rmtree(d0, ignore_errors=True)
    if rc != 0 or not out or not out[-1].startswith("calls="):
        raise SystemExit(vlib.harness_error(ctx, f"uninterrupted run failed rc={rc}: {se[-500:]}"))
    total = int(out[-1].split()[0].split("=")[1])
    kinds = out[-1].split("kinds=")[1] if "kinds=" in out[-1] else ""
    hist = [{}] + [parse_dump(out[2 + 2 * i]) for i in range(len(ops))]     # hist[j]: after op j (1-based)
    ctx.cov["storage_calls_in_streams"] = ctx.cov.get("storage_calls_in_streams", 0) + total
    points = list(range(1, total + 1))
    if kill_points and len(points) > kill_points:
        # a sample: first the points next to a deletion (the n-th call or its successor is a Delete: the
        # windows in which an entry has been removed and its replacement may not have been written, or the
        # other way round), then random ones
        near = [n for n in points if kinds[n - 1:n] == "D" or kinds[n:n + 1] == "D"]
        near = near if len(near) <= kill_points else sorted(rng.sample(near, kill_points))
        rest = [n for n in points if n not in near]
        points = sorted(near + rng.sample(rest, min(len(rest), max(2, kill_points - len(near)))))
        ctx.cov["kill_points_next_to_a_delete"] = ctx.cov.get("kill_points_next_to_a_delete", 0) + len(near)
    for n in points:
        for mode in ("before", "after"):
            d = f"{ctx.work}/p{si}-{n}-{mode}"
            shutil.rmtree(d, ignore_errors=True)
            rc, out1, se = run_h(ctx, h, [f"open a pebble {d}", f"killat {n} {mode}"] + ops, f"kill{si}")
            ctx.cov["evaluations"] += 1
            if rc != -signal.SIGKILL:
                shutil.rmtree(d, ignore_errors=True)
                vlib.record_violation(ctx, "crash", {"ops": ops, "kill_at": n, "mode": mode, "explain": f"the run was expected to be killed at storage call {n} but ended with status {rc}: {se[-300:]}"})
                return
            inflight = len(out1) - 2 + 1                     # 1-based index of the command during which the kill happened
            done_flush = [j for j in range(1, inflight) if ops[j - 1] in ("flush", "gc")]
            lo = done_flush[-1] if done_flush else 0
            # recover; then continue the stream on the recovered directory, kill again, recover again
            rc, out2, se = run_h(ctx, h, [f"attach a pebble {d}", "ldump"], f"rec{si}")
            if rc != 0 or len(out2) < 2 or not out2[1].startswith("ldump"):
                vlib.record_violation(ctx, "crash", {"ops": ops[:inflight], "kill_at": n, "mode": mode, "recovered": out2, "stderr": se[-600:],
                                                     "explain": "after the kill the Pebble directory could not be opened by a fresh process"})
                shutil.rmtree(d, ignore_errors=True)
                return
            rec = parse_dump(out2[1])
            bad = check_recovered(rec, hist, lo, min(inflight, len(ops)))
            ctx.nontrivial.add((ops[inflight - 1].split()[1] if ops[inflight - 1].startswith("api") else ops[inflight - 1], mode, len(rec) > 0))
            if bad:
                k, got, allowed = bad
                vlib.record_violation(ctx, "crash", {"ops": ops[:inflight], "kill_at": n, "mode": mode, "key": k, "recovered": got, "allowed": sorted(str(a) for a in allowed),
                                                     "last_completed_flush_op": lo, "killed_during_op": inflight,
                                                     "explain": "killed at this storage call, the reopened directory holds for this key a state it never had between the last completed SAVE / eviction pass and the kill (None = absent)"})
                shutil.rmtree(d, ignore_errors=True)
                return
            if cycles:
                # second cycle: a short continuation with a SAVE, killed at its k-th call, recovered again
                cont = gen_stream(rng, 12) + ["flush"]
                rc, o3, se = run_h(ctx, h, [f"attach a pebble {d}"] + interleave(cont) + ["storecalls"], f"cont{si}")
                # (uninterrupted continuation run on a copy gives the oracle)
                tot2 = int(o3[-1].split()[0].split("=")[1]) if o3 and o3[-1].startswith("calls=") else 0
                hist2 = [rec] + [parse_dump(o3[2 + 2 * i]) for i in range(len(cont))] if tot2 else None
                # the continuation above ran to completion on d itself: reopening must give its final state
                rc, o4, se = run_h(ctx, h, [f"attach a pebble {d}", "ldump"], f"rec2{si}")
                if hist2 and (rc != 0 or len(o4) < 2 or parse_dump(o4[1]) != hist2[-1]):
                    vlib.record_violation(ctx, "crash", {"ops": ops[:inflight] + ["<kill+recover>"] + cont, "kill_at": n, "mode": mode,
                                                         "recovered": o4[1:2], "expected": o3[-2:-1],
                                                         "explain": "second cycle: after recovery the stream continued, ended with a completed SAVE and the process exited without Close; the reopened directory differs from the state at that SAVE"})
                    shutil.rmtree(d, ignore_errors=True)
                    return
            shutil.rmtree(d, ignore_errors=True)


def run(ctx, proofs_ok):
    q = ctx.tier == "quick"
    h = vlib.build_harness(ctx)
    one_stream(ctx, h, "s", 0, 14 if q else 0, cycles=False)
    if ctx.violations:
        return
    for si in range(2 if q else 8):
        one_stream(ctx, h, si, 40 if q else 120, 10 if q else 0, cycles=(si % 2 == 0))
        if ctx.violations:
            return
