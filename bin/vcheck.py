#!/usr/bin/env python3
"""vcheck.py <property-id> [quick|thorough]   |   vcheck.py replay <path>"""
import importlib, json, os, sys
sys.path.insert(0, os.path.dirname(os.path.abspath(__file__)))
import vlib


def main():
    if len(sys.argv) >= 3 and sys.argv[1] == "replay":
        import replay
        sys.exit(replay.main(sys.argv[2]))
    pid = sys.argv[1]
    tier = sys.argv[2] if len(sys.argv) > 2 else os.environ.get("VERIF_TIER", "quick")
    ctx = vlib.Ctx(pid, tier)
    mod = importlib.import_module(f"checks.{pid}")
    ok = vlib.proof_stage(ctx)
    try:
        mod.run(ctx, ok)
    except SystemExit:
        raise
    if not ok and not ctx.violations:
        vlib.record_violation(ctx, "proof", {
            "broken": getattr(ctx, "broken_proof", "?"),
            "log": getattr(ctx, "build_log", ""),
            "explain": "a theorem or tie of this property no longer checks; the search of model and implementation found no input on which the property fails",
        }, no_input=True)
    sys.exit(vlib.finish(ctx))


if __name__ == "__main__":
    main()
