"""RESP generators for the sorted-set family (ZADD … ZEXISTS, Z*STORE) and SSCAN / HSCAN / ZSCAN.

FAMILIES = {"zsets": …, "zstore": …, "cscan": …}; each returns one `resp <conn> <hex…>` line.

Float text stays inside the model's fragment: integer-valued decimal numbers, an optional leading
`(`, the inf/infinity spellings, and clearly non-numeric text. Infinite scores only ever go to the
key `zi`, which never takes part in arithmetic that could produce NaN (Z*STORE operands, infinite
ZINCRBY deltas); `nan` is never sent where it would become a score.
"""
import gen_api
from gen_api import hx, KEYS, ALLKEYS, MEMBERS

ZKEYS = [b"z1", b"z2", b"z3"]
ZI = b"zi"
SCORES = [b"0", b"1", b"-1", b"2", b"3", b"5", b"10", b"100", b"+5", b"007", b"-0",
          b"0.1", b"0.2", b"1e-3", b"3.0e3", b"-.5", b"5.", b"1e-400", b"0.1e1", b"0.30000000000000004", b"1.5", b"2.5", b"1e21", b"1e22",
          b"123456.789", b"5e-324", b"1_0", b"1E2", b"9007199254740993", b"12345678901234567890"]
INFS = [b"inf", b"-inf", b"+inf", b"Inf", b"-Inf", b"INF", b"infinity", b"-Infinity", b"+INFINITY"]
BADFLOATS = [b"abc", b"", b"(", b"(1", b"1x", b"in", b"infi", b"+nan", b"-", b"+", b"1 ", b" 1", b"--1", b"i", b"n",
             b"1e400", b"-1e400", b"1e", b".", b"1e+", b"1__0", b"_1", b"1._5", b"1.2.3"]
BOUNDS = [b"0", b"1", b"-1", b"2", b"3", b"5", b"10", b"100", b"(0", b"(1", b"(2", b"(3", b"(5", b"(10", b"(-1",
          b"-inf", b"+inf", b"inf", b"(-inf", b"(+inf", b"(inf", b"-Infinity", b"Inf", b"(100", b"-100",
          b"0.1", b"(0.1", b"1.5", b"(1.5", b"2.5", b"1e-3", b"(1e-3", b"3.0e3", b"-.5", b"(-.5", b"1e300", b"-1e300", b"(1e300", b"1e-400",
          b"0.30000000000000004", b"(0.30000000000000004", b"0.3", b"123456.789", b"1e21", b"5e-324", b"(5e-324", b"(0", b"0.1e1"]
BADBOUNDS = [b"abc", b"", b"(", b"((1", b"1(", b"(abc", b"infi", b"+nan", b"(+nan", b"-", b"1 ", b"nan", b"(nan", b"1e400", b"(1e400", b"(-1e400", b"1e", b"(.", b"1__0"]
INTS = [b"0", b"1", b"2", b"3", b"-1", b"-2", b"-3", b"5", b"10", b"-10", b"100"]
BADINTS = [b"abc", b"", b"1.0", b"9223372036854775807", b"-9223372036854775808", b"9223372036854775808",
           b"99999999999999999999", b" 1", b"+2", b"007", b"(1", b"-"]
# operand replacement pool of the arity/operand fuzz: nothing that parses as a non-integer float
EDGE = [b"0", b"1", b"-1", b"2", b"5", b"10", b"100", b"-100", b"007", b"+5", b"abc", b"", b"9223372036854775807",
        b"-9223372036854775808", b"9223372036854775808", b"99999999999999999999", b" 1", b"1 ", b"(1", b"(", b"inf", b"-inf",
        b"NX", b"XX", b"GT", b"LT", b"CH", b"INCR", b"COUNT", b"MATCH", b"LIMIT", b"WITHSCORES", b"WITHSCORE", b"BYSCORE", b"REV",
        b"WEIGHTS", b"AGGREGATE", b"limit", b"withscores"]
LOWS = [b"-inf", b"-inf", b"0", b"(0", b"1", b"(1", b"-1", b"-100", b"(-inf", b"2", b"-Infinity", b"(-1",
        b"0.1", b"(0.1", b"-.5", b"1e-3", b"(0.2", b"-1e300", b"0.30000000000000004", b"(0.30000000000000004", b"1e-400", b"(1.5", b"5e-324"]
HIGHS = [b"+inf", b"inf", b"5", b"(5", b"10", b"100", b"3", b"(3", b"2", b"(2", b"(+inf", b"Infinity", b"(10",
         b"2.5", b"(2.5", b"3.0e3", b"(3.0e3", b"1e300", b"0.30000000000000004", b"(0.30000000000000004", b"123456.789", b"(1e21", b"1e22", b"0.3"]
RANKS = [(0, -1), (0, -1), (1, -1), (1, 2), (1, 3), (2, 3), (0, 2), (0, 5), (-3, -1), (-2, -1), (1, 1), (2, 2), (1, 100), (0, 100),
         (2, -1), (-100, 100), (0, 0), (-1, -1), (3, 5), (1, -2)]
NORETURN = ("ZREM", "ZREMRANGEBYRANK", "ZREMRANGEBYSCORE", "ZCLEAR", "ZEXISTS")
MINARGS = {"ZREM": 2, "ZREMRANGEBYRANK": 3, "ZREMRANGEBYSCORE": 3, "ZCLEAR": 1, "ZEXISTS": 2}


def pick(g, good, bad, p=0.88):
    r = g.r
    return hx(r.choice(good)) if r.random() < p else hx(r.choice(bad))


def zkey(g, wrong=0.1, inf=0.12):
    """a sorted-set key; sometimes the infinite-score key, another family's key, an odd key"""
    r = g.r
    x = r.random()
    if x < inf:
        return hx(ZI)
    if x < inf + wrong:
        return hx(r.choice(ALLKEYS + KEYS["any"]))
    return hx(r.choice(ZKEYS + [b"zd"]))


def finite_key(g, wrong=0.1):
    return zkey(g, wrong, inf=0.0)


def txconn(g):
    return g.conns[-1] if len(g.conns) > 1 else None


def emit(g, conn, parts, fuzz=True, keep=1):
    """`parts` = name + hex tokens; arity/operand fuzz that never touches the first `keep` operands'
    identity in a dangerous way is the caller's business (keep = number of leading tokens, name
    included, that are never replaced)."""
    r = g.r
    name = parts[0]
    toks = [hx(name.encode())] + list(parts[1:])
    if fuzz:
        x = r.random()
        if x < 0.80:
            pass
        elif x < 0.88:
            toks = toks[:r.randrange(1, len(toks) + 1)]
        elif x < 0.92:
            toks = toks + [hx(r.choice(EDGE)) for _ in range(r.randrange(1, 3))]
        elif x < 0.97 and len(toks) > keep:
            i = r.randrange(keep, len(toks))
            toks = toks[:i] + [hx(r.choice(EDGE))] + toks[i + 1:]
        elif x < 0.985 and len(toks) > 2:
            i = r.randrange(1, len(toks))          # drop one operand in the middle
            toks = toks[:i] + toks[i + 1:]
        else:
            toks = [toks[0]]
    # handlers that answer a failed arity check with an error AND carry on write two replies; inside
    # MULTI the harness reads exactly one reply per command, so the transaction connection never
    # sends them short
    if name in NORETURN and conn == txconn(g) and len(toks) - 1 < MINARGS[name]:
        toks = [hx(name.encode())] + list(parts[1:])
    return f"resp {conn} " + " ".join(toks)


def zadd(g, conn):
    r = g.r
    c = r.choice
    inf_key = r.random() < 0.12
    key = hx(ZI) if inf_key else finite_key(g)
    opts = []
    x = r.random()
    if x < 0.6:
        pass
    else:
        if r.random() < 0.5:
            opts.append(g.word(c(["NX", "XX"])))
        if r.random() < 0.4:
            opts.append(g.word(c(["GT", "LT"])))
        if r.random() < 0.25:
            opts.append(g.word("CH"))
        if r.random() < 0.25:
            opts.append(g.word("INCR"))
        if r.random() < 0.2:
            r.shuffle(opts)
    incr = any(bytes.fromhex(o).upper() == b"INCR" for o in opts)
    pairs = []
    npairs = c([1, 1, 2, 2, 3, 4])
    # (since the repair of A-48 / A-52 every pair counts under every option, and nothing is written when one score is bad)
    dup = g.member() if npairs > 1 and r.random() < 0.3 else None        # one member several times in one command
    bad_at = r.randrange(1, npairs) if npairs > 1 and r.random() < 0.12 else -1   # a bad score in a LATER pair
    for i in range(npairs):
        if i == bad_at:
            sc = hx(c(BADFLOATS))
        elif inf_key and not incr and r.random() < 0.6:
            sc = hx(c(INFS))
        else:
            sc = pick(g, SCORES, BADFLOATS, 0.95)
        pairs += [sc, dup if dup is not None and r.random() < 0.7 else g.member()]
    if r.random() < 0.04:
        pairs = pairs[:-1]                                               # a dangling score
    x = r.random()
    if x < 0.85:
        parts = ["ZADD", key] + opts + pairs
    elif x < 0.93:                     # option words after / between the pairs
        parts = ["ZADD", key] + pairs + opts
    else:
        parts = ["ZADD", key] + pairs[:2] + opts + pairs[2:]
    line = emit(g, conn, parts)
    return sanitize(g, conn, line)


def has_inf(tok):
    if tok == "-" or not all(ch in "0123456789abcdef" for ch in tok):
        return False
    t = bytes.fromhex(tok).lower().lstrip(b"(+-")
    return t in (b"inf", b"infinity")


def sanitize(g, conn, line):
    """the operand fuzz may have moved an infinite score next to INCR or onto a finite key, or put
    `nan` where a score is read: fall back to a harmless command then"""
    t = line.split()
    args = t[3:]
    name = bytes.fromhex(t[2]).upper() if t[2] != "-" else b""
    key = args[0] if args else None
    words = [bytes.fromhex(a).upper() if a != "-" and all(ch in "0123456789abcdef" for ch in a) else b"" for a in args]
    infs = any(has_inf(a) for a in args[1:])
    nan = any(w.lstrip(b"(") == b"NAN" for w in words)
    # (integers beyond 2^53 are parsed and printed by the model since Model/FloatDec.lean)
    big = False
    if name in (b"ZADD", b"ZINCRBY"):
        if nan or big or (infs and (key != hx(ZI) or b"INCR" in words or name == b"ZINCRBY")):
            return f"resp {conn} " + " ".join([hx(b"ZCARD"), key or hx(b"z1")])
    return line


def zsets(g, conn):
    r = g.r
    c = r.choice
    k = zkey(g)
    m = g.member
    def bound():
        return pick(g, BOUNDS, BADBOUNDS, 0.9)
    def num():
        return pick(g, INTS, BADINTS, 0.9)
    def bounds(rev=False):
        # mostly a non-empty interval in the order the command expects
        if r.random() < 0.7:
            lo = hx(c(LOWS)); hi = hx(c(HIGHS))
            return [hi, lo] if rev else [lo, hi]
        return [bound(), bound()]
    def ranks():
        if r.random() < 0.7:
            a, b = c(RANKS)
            return [hx(str(a).encode()), hx(str(b).encode())]
        return [num(), num()]
    def limit():
        return [g.word("LIMIT"), pick(g, [b"0", b"1", b"2", b"-1", b"5"], BADINTS, 0.9), pick(g, [b"1", b"2", b"-1", b"0", b"10", b"3"], BADINTS, 0.9)]
    def zrange():
        byscore = r.random() < 0.5
        rev = r.random() < 0.4
        parts = ["ZRANGE", k] + (bounds(rev and r.random() < 0.9) if byscore else ranks())
        opts = []
        if byscore:
            opts.append([g.word("BYSCORE")])
        if rev:
            opts.append([g.word("REV")])
        if r.random() < (0.4 if byscore else 0.1):
            opts.append(limit() if r.random() < 0.9 else limit()[:c([1, 2])])
        if r.random() < 0.4:
            opts.append([g.word(c(["WITHSCORES", "WITHSCORES", "WITHSCORES", "WITHSCORE"]))])
        if r.random() < 0.3:
            r.shuffle(opts)
        return parts + [t for o in opts for t in o]
    def byscore(name):
        parts = [name, k] + bounds(name == "ZREVRANGEBYSCORE" and r.random() < 0.9)
        opts = []
        if r.random() < 0.4:
            opts.append([g.word("WITHSCORES")])
        if r.random() < 0.4:
            opts.append(limit() if r.random() < 0.9 else limit()[:c([1, 2])])
        if r.random() < 0.3:
            r.shuffle(opts)
        return parts + [t for o in opts for t in o]
    def zincrby():
        key = zkey(g)
        return ["ZINCRBY", key, pick(g, [b"1", b"-1", b"2", b"5", b"10", b"0", b"(3", b"-100", b"0.1", b"0.2", b"-.5", b"1e-3", b"3.0e3", b"(0.25", b"1e16", b"0.30000000000000004", b"5e-324", b"1e-400", b"123456.789"], BADFLOATS + [b"((1"], 0.9), m()]
    ops = [
        lambda: None, lambda: None, lambda: None, lambda: None, lambda: None, lambda: None, lambda: None, lambda: None,   # ZADD (built separately)
        lambda: ["ZCARD", k],
        lambda: ["ZSCORE", k, m()], lambda: ["ZSCORE", k, m()],
        lambda: ["ZRANK", k, m()] + ([g.word(c(["WITHSCORES", "WITHSCORE"]))] if r.random() < 0.4 else []),
        lambda: ["ZREVRANK", k, m()] + ([g.word(c(["WITHSCORES", "WITHSCORE"]))] if r.random() < 0.4 else []),
        lambda: zincrby(),
        lambda: zrange(), lambda: zrange(), lambda: zrange(),
        lambda: ["ZREVRANGE", k] + ranks() + ([g.word("WITHSCORES")] if r.random() < 0.4 else []),
        lambda: byscore("ZRANGEBYSCORE"), lambda: byscore("ZREVRANGEBYSCORE"),
        lambda: ["ZCOUNT", k] + bounds(),
        lambda: ["ZREM", k] + [m() for _ in range(c([1, 1, 2, 3]))],
        lambda: ["ZREMRANGEBYRANK", k] + (ranks() if r.random() < 0.5 else [num(), num()]),
        lambda: ["ZREMRANGEBYSCORE", k] + (bounds() if r.random() < 0.4 else [bound(), bound()]),
        lambda: ["ZEXISTS", k, m()],
        lambda: ["ZCLEAR", k] if r.random() < 0.5 else ["ZCARD", k],
        lambda: ["ZSCAN", k, pick(g, [b"0", b"0", b"1", b"2", b"5"], BADINTS, 0.9)]
                + ([g.word("MATCH"), g.pattern()] if r.random() < 0.4 else [])
                + ([g.word("COUNT"), pick(g, [b"1", b"2", b"10", b"100", b"0", b"-1"], BADINTS, 0.9)] if r.random() < 0.4 else []),
    ]
    p = c(ops)()
    if p is None:
        return zadd(g, conn)
    return sanitize(g, conn, emit(g, conn, p))


def zstore(g, conn):
    """ZUNIONSTORE / ZINTERSTORE: the destination is never among the operands of a union (that
    self-deadlocks) and never the empty key (slicing `cmd.Args` beyond its length yields empty keys);
    operands never include the infinite-score key"""
    r = g.r
    c = r.choice
    union = r.random() < 0.5
    n = c([1, 2, 2, 2, 3])
    srcpool = ZKEYS + [b"z4", b"s1", b"t1", b"nokey", b"w"]
    dst = c([b"zd", b"zd", b"zd", b"s2", b"l1", b"zd2"])       # never an operand: repeated stores cannot compound scores
    srcs = [c(srcpool if r.random() < 0.85 else ZKEYS) for _ in range(n)]
    srcs = [s for s in srcs if s != dst] or [b"z1"]
    if r.random() < 0.35:
        srcs = [s for s in srcs if s in ZKEYS] or [b"z1"]     # a share with only proper operands
    n = len(srcs)
    x = r.random()
    if x < 0.87:
        numkeys = str(n).encode()
    else:
        numkeys = c([b"0", b"1", b"2", b"3", b"4", b"5", b"6", b"7", b"-1", b"abc", b"", b"100", b"9223372036854775807",
                     b"9223372036854775806", b"-9223372036854775808", b"+1"])
    parts = ["ZUNIONSTORE" if union else "ZINTERSTORE", hx(dst), hx(numkeys)] + [hx(s) for s in srcs]
    opts = []
    if r.random() < 0.45:
        nw = n if r.random() < 0.8 else c([0, 1, 2, 3, 4])
        ws = [pick(g, [b"1", b"2", b"3", b"0", b"-1", b"10", b"(2", b"0.5", b"0.1", b"1e-3", b"3.0e3", b"-.5", b"(1.5", b"1e-400", b"0.1e1"], [b"abc", b"", b"(", b"1x", b"1e400", b"1e", b"."], 0.92) for _ in range(nw)]
        opts.append([g.word("WEIGHTS")] + ws)
    if r.random() < 0.45:
        a = [g.word("AGGREGATE")]
        if r.random() < 0.92:
            a.append(g.word(c(["SUM", "MIN", "MAX", "MIN", "MAX", "AVG"])) if r.random() < 0.95 else hx(b""))
        opts.append(a)
    if r.random() < 0.25:
        r.shuffle(opts)
    parts += [t for o in opts for t in o]
    # own fuzz: never touches the destination, never appends / substitutes a key-like or empty token
    # in the operand window of a union
    toks = [hx(parts[0].encode())] + parts[1:]
    x = r.random()
    if x < 0.85:
        pass
    elif x < 0.93:
        toks = toks[:r.randrange(1, len(toks) + 1)]
    elif x < 0.97:
        toks = toks + [hx(c([b"1", b"2", b"abc", b"WEIGHTS", b"AGGREGATE", b"MAX", b"junk"])) for _ in range(r.randrange(1, 3))]
    else:
        toks = [toks[0]]
    # a union whose operand window (numkeys may exceed the operands present) can reach the destination
    # or an empty key equal to it would hang the connection: the destination is never empty, and the
    # window never contains it because no operand equals it
    return f"resp {conn} " + " ".join(toks)


def cscan(g, conn):
    """SSCAN / HSCAN / ZSCAN plus the SADD / HSET / ZADD that populate their keys"""
    r = g.r
    c = r.choice
    sk = g.k("set", 0.15)
    hk = g.k("hash", 0.15)
    def scanargs():
        return ([pick(g, [b"0", b"0", b"0", b"1", b"2", b"3", b"5", b"100"], BADINTS, 0.88)]
                + ([g.word("MATCH"), g.pattern()] if r.random() < 0.4 else [])
                + ([g.word("COUNT"), pick(g, [b"1", b"2", b"3", b"10", b"100", b"0", b"-1"], BADINTS, 0.9)] if r.random() < 0.45 else []))
    def shuffled(name, key):
        a = scanargs()
        if r.random() < 0.08:                       # options before the cursor / option word as key
            tail = a[1:]
            return [name, key] + tail + a[:1]
        if r.random() < 0.04:
            return [name, g.word(c(["MATCH", "COUNT"]))] + a
        return [name, key] + a
    ops = [
        lambda: ["SADD", sk] + [g.member() for _ in range(c([1, 2, 3, 4]))],
        lambda: ["SADD", sk] + [g.member() for _ in range(c([1, 2, 3, 4]))],
        lambda: ["HSET", hk, g.member(), g.val()],
        lambda: ["HSET", hk, g.member(), g.val()],
        lambda: ["HSET", hk, g.member(), g.val(), g.member(), g.val()],
        lambda: shuffled("SSCAN", sk), lambda: shuffled("SSCAN", sk), lambda: shuffled("SSCAN", sk),
        lambda: shuffled("HSCAN", hk), lambda: shuffled("HSCAN", hk), lambda: shuffled("HSCAN", hk),
        lambda: shuffled("ZSCAN", zkey(g)), lambda: shuffled("ZSCAN", zkey(g)),
        lambda: None,
    ]
    p = c(ops)()
    if p is None:
        return zadd(g, conn)
    if p[0] == "HSCAN" and conn == txconn(g):
        # inside EXEC the pairs of an HSCAN reply (Go map order) are not canonicalised: the transaction
        # connection only asks for at most one pair
        p = ["HSCAN", hk, hx(c([b"0", b"0", b"1", b"2"]))] + ([g.word("MATCH"), g.pattern()] if r.random() < 0.4 else []) + [g.word("COUNT"), hx(b"1")]
        return emit(g, conn, p, fuzz=False)
    return emit(g, conn, p)


def zs(g, conn):
    """the whole family in one: 60 % sorted-set commands, 15 % Z*STORE, 25 % scans"""
    x = g.r.random()
    if x < 0.60:
        return zsets(g, conn)
    if x < 0.75:
        return zstore(g, conn)
    return cscan(g, conn)


FAMILIES = {"zs": zs, "zsets": zsets, "zstore": zstore, "cscan": cscan}
