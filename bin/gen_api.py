"""Type-directed generators of embedded-API operation streams (line protocol of the harness).

Every random choice derives from the rng handed in (one PRNG per check, seeded by VERIF_SEED).
~85 % of the calls are well-formed for the key they touch, ~15 % hit another family's key,
a missing key, or use edge operands. Nothing here knows the state: it is not a model.
"""
import struct

NOW0 = 1257894000000  # faketime epoch in ms


def hx(b):
    if isinstance(b, str):
        b = b.encode()
    return b.hex() if b else "-"


def fbits(x):
    return "%016x" % struct.unpack(">Q", struct.pack(">d", float(x)))[0]


KEYS = {
    "str": [b"s1", b"s2"],
    "list": [b"l1", b"l2"],
    "hash": [b"h1", b"h2"],
    "set": [b"t1", b"t2", b"t3"],
    "zset": [b"z1", b"z2", b"z3"],
    "any": [b"", b"x/y", b"\x00\xff*", b"w"],
}
ALLKEYS = [k for v in KEYS.values() for k in v]
VALUES = [b"", b"a", b"b", b"0", b"5", b"-3", b"99", b"100", b"007", b"+5", b"12a", b"abc",
          b"9223372036854775807", b"-9223372036854775808", b"\x00\r\n\xff", b"hello world"]
MEMBERS = [b"a", b"b", b"c", b"d", b"", b"\x00\xffm", b"ab", b"a/b"]
PATTERNS = [b"*", b"a*", b"?", b"[a-c]", b"*b", b"x", b"", b"a/*", b"[^a]*", b"\\*"]
INT_EDGES = [0, 1, -1, 2, -2, 3, 5, -5, 7, 100, -100, 2**31, 2**63 - 1, -2**63]
# GeoAdd(key, members...): in range, on the limits, outside (stored with score 0), equal points
GEO_LONS = [13.361389, 15.087269, 0.0, -0.0, 0.0001, -122.4194, 179.99999, -180.0, 180.0, 200.0, -200.0, 2.5]
GEO_LATS = [38.115556, 37.502669, 0.0, 0.0001, -0.0001, 85.05112878, -85.05112878, 85.05112877, 90.0, -90.0, 60.0]
SCORES_ARITH = [0, 1, -1, 2, 3, -2, 5, 10, 100]
SCORES_ANY = [0.0, -0.0, 1.0, -1.0, 1.5, 2.5, 3.0, 2.0, 1e100, -1e100, 5e-324, 0.1, 0.2, 0.30000000000000004, 1e-3, 123456.789, 1e21]
# float text (work package C): increments / stored texts with fractions, exponents, 17-digit values, sums that need
# rounding, subnormals, overflow to Inf; the model's decimal ParseFloat / FormatFloat (Model/FloatDec.lean) handles them.
# No NaN here: the embedded API returns the sum as a bit pattern and NaN payloads are not modelled.
FLOAT_INCRS = [1, -1, 2, 10, 0, 1, -1, 0.1, 0.2, 0.5, -0.25, 1e-3, 3.0e3, 1e16, 0.30000000000000004, 1e300, -1e300, 5e-324,
               1.7976931348623157e308, -1.7976931348623157e308, 123456.789, 1e21, 1e22, 1e-7, 9007199254740993.0, 2.2250738585072014e-308, -0.0]
FLOAT_TEXTS = [b'0', b'5', b'-3', b'+5', b'007', b'12a', b'', b'99', b'0.1', b'1e3', b'3.0e3', b'-.5', b'5.', b'1e400', b'-1e400', b'1e-400',
               b'0.1e1', b'1_000', b'1__0', b'inf', b'-Infinity', b'+INF', b'1.7976931348623157e308', b'9007199254740993', b'0.30000000000000004',
               b'1e', b'.', b'4.9e-324', b'2.4703282292062327e-324', b'1E5', b'-0', b'-0.0', b'00.50', b'1e+2', b'12345678901234567890.5',
               b'0.1 ', b' 1', b'1e1.5', b'infinit', b'+nan']
SCORES_INF = SCORES_ANY + [float("inf"), float("-inf")]   # only on key zi, which never takes part in arithmetic (inf-inf, 0*inf = NaN)


class G:
    def __init__(self, rng, realtime=False):
        self.r = rng
        # realtime: the harness runs on the wall clock (Pebble streams; the deterministic clock of
        # `-tags faketime` is not reliable with Pebble's background goroutines). Then only absolute
        # deadlines far in the past / future are used and remaining-time replies are not requested,
        # so that no outcome depends on the instant a command happens to run.
        self.realtime = realtime

    def key(self, fam, wrong=0.12):
        r = self.r
        if r.random() < wrong:
            return hx(r.choice(ALLKEYS))
        if r.random() < 0.15:
            return hx(r.choice(KEYS["any"]))
        return hx(r.choice(KEYS[fam]))

    def val(self):
        r = self.r
        x = r.random()
        if x < 0.05:
            return "r%dx%02x" % (r.choice([4096, 5000, 70, 64, 63]), r.randrange(256))
        if x < 0.15:
            return hx(bytes(r.randrange(256) for _ in range(r.randrange(1, 9))))
        return hx(r.choice(VALUES))

    def member(self):
        r = self.r
        if r.random() < 0.04:
            return "r70x%02x" % r.randrange(97, 100)
        return hx(r.choice(MEMBERS))

    def idx(self, span=8):
        r = self.r
        if r.random() < 0.1:
            return str(r.choice(INT_EDGES))
        return str(r.randrange(-span, span + 1))

    def small(self):
        return str(self.r.choice([0, 1, 1, 2, 3, 5, -1, 10, 1000]))

    def score(self, arith=False):
        r = self.r
        if arith or r.random() < 0.6:
            return fbits(r.choice(SCORES_ARITH))
        return fbits(r.choice(SCORES_ANY))

    def pattern(self):
        return hx(self.r.choice(PATTERNS))

    def two(self, fam):
        """two distinct keys (self-aliasing commands hang; they are tested under a watchdog in C06)"""
        a = self.key(fam)
        b = self.key(fam)
        if self.r.random() < 0.08:
            b = a               # the same key as source and destination
        return a, b

    # ---- families ---------------------------------------------------------------------------
    def strings(self):
        r, k = self.r, self.key("str")
        c = r.choice
        ops = [
            lambda: f"Set {k} {self.val()} {c('01')}",
            lambda: f"Set {k} {self.val()} 0",
            lambda: f"Get {k}",
            lambda: f"Get {k}",
            lambda: f"GetSet {k} {self.val()}",
            lambda: f"SetNX {k} {self.val()} {c('01')}",
            lambda: f"SetXX {k} {self.val()} {c('01')}",
            lambda: f"Append {k} {self.val()}",
            lambda: f"StrLen {k}",
            lambda: f"GetRange {k} {self.idx()} {self.idx()}",
            lambda: f"SetRange {k} {c([0, 0, 1, 2, 5, 9, 70, -1, 4097])} {self.val()}",
            lambda: f"Incr {k}",
            lambda: f"Decr {k}",
            lambda: f"IncrBy {k} {c([1, -1, 5, 100, 2**62, -2**62, 2**63 - 1, -2**63])}",
            lambda: f"DecrBy {k} {c([1, -1, 5, 100, 2**62, -2**63, 2**63 - 1])}",
            lambda: f"IncrByFloat {'6631' if r.random() < 0.95 else c(['6c31', '6e6f6b6579', '7a31'])} {fbits(c(FLOAT_INCRS))}",
            lambda: f"IncrByFloat 6631 {fbits(c(FLOAT_INCRS))}",
            lambda: f"Set 6631 {hx(c(FLOAT_TEXTS))} 0",
            lambda: f"SetBit {k} {c([0, 1, 7, 8, 9, 15, 63, 100, 4097 * 8, -1])} {c('01')}",
            lambda: f"GetBit {k} {c([0, 1, 7, 8, 9, 15, 63, 100, 40000, -1])}",
            lambda: f"BitCount {k} {self.idx()} {self.idx()} {c('01')}",
            lambda: "MSet " + " ".join(f"{self.key('str')} {self.val()}" for _ in range(r.randrange(0, 4))),
            lambda: f"MSet {k}",
        ]
        return "api " + c(ops)()

    def keyspace(self):
        r = self.r
        c = r.choice
        fam = c(["str", "list", "hash", "set", "zset"])
        k = self.key(fam, wrong=0.3)
        a, b = self.two(fam)
        ops = [
            lambda: "Del " + " ".join(self.key(fam, 0.3) for _ in range(r.randrange(1, 4))),
            lambda: "Unlink " + k,
            lambda: "Exists " + " ".join(self.key(fam, 0.3) for _ in range(r.randrange(1, 4))),
            lambda: f"Type {k}",
            lambda: f"Type {k}",
            lambda: f"Rename {a} {b}",
            lambda: f"RenameNX {a} {b}",
            lambda: f"Keys {self.pattern()}",
            lambda: "Keys 2a",
            lambda: "RandomKey",
            lambda: f"Scan {c([0, 0, 1, 2, 3, 5, 10, 100])} {c(['2a', '2a', self.pattern()])} {c([10, 1, 2, 3, 100, -1])} {c([0, 0, 0, 1, 2, 3, 4, 5])}",
            lambda: f"TTL {k}",
            lambda: f"PTTL {k}",
        ]
        if self.realtime:
            ops = ops[:-2]
        return "api " + c(ops)()

    def expiry(self, now):
        r = self.r
        c = r.choice
        fam = c(["str", "list", "hash", "set", "zset"])
        k = self.key(fam, wrong=0.2)
        secs = c([1, 2, 5, 100, 3600, 0, -1, -100, 2**53, 9223372036854775])
        past_future = c([now // 1000 - 10, now // 1000 + 5, now // 1000 + 3600, now // 1000, 0, 1])
        ops = [
            lambda: f"Expire {k} {secs}",
            lambda: f"ExpirePX {k} {c([1, 10, 1500, 100000, 0, -5])}",
            lambda: f"ExpireNX {k} {secs}",
            lambda: f"ExpireXX {k} {secs}",
            lambda: f"ExpireLT {k} {secs}",
            lambda: f"ExpireGT {k} {secs}",
            lambda: f"ExpireAt {k} {past_future * 1000 + c([0, 1, 999])}",
            lambda: f"ExpireAtNX {k} {past_future * 1000}",
            lambda: f"ExpireAtXX {k} {past_future * 1000}",
            lambda: f"ExpireAtLT {k} {past_future * 1000}",
            lambda: f"ExpireAtGT {k} {past_future * 1000}",
            lambda: f"Persist {k}",
            lambda: f"TTL {k}",
            lambda: f"PTTL {k}",
            lambda: f"SetEX {self.key('str')} {self.val()} {c([1, 2, 100, 0, -1])}",
            lambda: f"SetPX {self.key('str')} {self.val()} {c([1, 10, 1500, 100000, 0, -5])}",
            lambda: f"Set {self.key('str')} {self.val()} 1",
            lambda: f"SetNX {self.key('str')} {self.val()} 1",
        ]
        if self.realtime:
            far = c([1000, 1257894000000, 4102444800000, 4102444800000, 4102444801500])   # 1970, 2009, 2100
            ops = [
                lambda: f"ExpireAt {k} {far}",
                lambda: f"ExpireAtNX {k} {far}",
                lambda: f"ExpireAtXX {k} {far}",
                lambda: f"ExpireAtLT {k} {far}",
                lambda: f"ExpireAtGT {k} {far}",
                lambda: f"Persist {k}",
                lambda: f"Set {self.key('str')} {self.val()} 1",
                lambda: f"SetNX {self.key('str')} {self.val()} 1",
                lambda: f"Exists {k}",
            ]
        return "api " + c(ops)()

    def lists(self):
        r, k = self.r, self.key("list")
        c = r.choice
        a, b = self.two("list")
        vals = lambda: " ".join(self.val() for _ in range(r.randrange(1, 4)))
        ops = [
            lambda: f"LPush {k} {vals()}",
            lambda: f"RPush {k} {vals()}",
            lambda: f"RPush {k} {vals()}",
            lambda: f"LPushX {k} {self.val()}",
            lambda: f"RPushX {k} {self.val()}",
            lambda: f"LPop {k} {c([1, 1, 2, 0, -1, 100])}",
            lambda: f"RPop {k} {c([1, 1, 2, 0, -1, 100])}",
            lambda: f"LLen {k}",
            lambda: f"LIndex {k} {self.idx()}",
            lambda: f"LRange {k} {self.idx()} {self.idx()}",
            lambda: f"LRange {k} 0 -1",
            lambda: f"LInsert {k} {self.val()} {self.val()} {c('01')}",
            lambda: f"LSet {k} {self.idx()} {self.val()}",
            lambda: f"LRem {k} {self.val()} {c([0, 1, 2, -1, -2, 100, -100])}",
            lambda: f"LTrim {k} {self.idx()} {self.idx()}",
            lambda: f"LPopRPush {a} {b}",
            lambda: f"RPopLPush {a} {b}",
        ]
        return "api " + c(ops)()

    def hashes(self):
        r, k = self.r, self.key("hash")
        c = r.choice
        f = self.member
        ops = [
            lambda: f"HSet {k} {f()} {self.val()}",
            lambda: f"HSet {k} {f()} {self.val()}",
            lambda: f"HSetNX {k} {f()} {self.val()}",
            lambda: f"HMSet {k} [ " + " ".join(f"{f()} {self.val()}" for _ in range(r.randrange(0, 4))) + " ]",
            lambda: f"HGet {k} {f()}",
            lambda: f"HMGet {k} " + " ".join(f() for _ in range(r.randrange(1, 4))),
            lambda: f"HGetAll {k}",
            lambda: f"HKeys {k}",
            lambda: f"HVals {k}",
            lambda: f"HLen {k}",
            lambda: f"HExists {k} {f()}",
            lambda: f"HStrLen {k} {f()}",
            lambda: f"HDel {k} " + " ".join(f() for _ in range(r.randrange(1, 4))),
            lambda: f"HIncrBy {k} {f()} {c([1, -1, 5, 2**62, -2**63, 2**63 - 1])}",
            lambda: f"HIncrByFloat {k} 666c {fbits(c(FLOAT_INCRS))}",
            lambda: f"HIncrByFloat {k} 666c {fbits(c(FLOAT_INCRS))}",
            lambda: f"HSet {k} 666c {hx(c(FLOAT_TEXTS))}",
            lambda: f"HScan {k} {c([0, 0, 1, 2, 5])} {c(['2a', self.pattern()])} {c([10, 1, 2, 0, 100])}",
            lambda: f"HClear {k}",
        ]
        return "api " + c(ops)()

    def sets(self):
        r, k = self.r, self.key("set")
        c = r.choice
        m = self.member
        a, b = self.two("set")
        many = lambda: " ".join(self.key("set", 0.1) for _ in range(r.randrange(1, 4)))
        ops = [
            lambda: f"SAdd {k} " + " ".join(m() for _ in range(r.randrange(1, 5))),
            lambda: f"SAdd {k} " + " ".join(m() for _ in range(r.randrange(1, 5))),
            lambda: f"SRem {k} " + " ".join(m() for _ in range(r.randrange(1, 4))),
            lambda: f"SIsMember {k} {m()}",
            lambda: f"SCard {k}",
            lambda: f"SMembers {k}",
            lambda: f"SMove {a} {b} {m()}",
            lambda: f"SPop {k} {c([1, 1, 2, 0, 3, 100, -1])}",
            lambda: f"SRandMember {k} {c([1, 2, 0, -1, -3, 100])}",
            lambda: f"SInter {many()}",
            lambda: f"SUnion {many()}",
            lambda: f"SDiff {many()}",
            lambda: f"SInterStore {self.key('set')} {many()}",
            lambda: f"SUnionStore {self.key('set')} {many()}",
            lambda: f"SDiffStore {self.key('set')} {many()}",
            lambda: f"SScan {k} {c([0, 0, 1, 5])} {c(['2a', self.pattern()])} {c([10, 1, 2, 0])}",
        ]
        return "api " + c(ops)()

    def zsets(self):
        r, k = self.r, self.key("zset")
        c = r.choice
        m = self.member
        if r.random() < 0.12:
            zi = "7a69"
            mode = lambda: str(c([0, 0, 1, 2, 3]))
            sc = lambda: fbits(c(SCORES_INF))
            return "api " + c([
                lambda: f"ZAdd {zi} {m()} {sc()}",
                lambda: f"ZAdd {zi} {m()} {sc()}",
                lambda: f"ZRangeByScoreWithScores {zi} {sc()} {sc()} 0 -1 {mode()}",
                lambda: f"ZRevRangeByScore {zi} {sc()} {sc()} {c([0, 1])} {c([-1, 2])} {mode()}",
                lambda: f"ZCount {zi} {sc()} {sc()} {mode()}",
                lambda: f"ZRemRangeByScore {zi} {sc()} {sc()} {mode()}",
                lambda: f"ZRangeWithScores {zi} 0 -1",
                lambda: f"ZRank {zi} {m()}",
                lambda: f"ZAddGT {zi} {m()} {sc()}",
                lambda: f"ZAddLT {zi} {m()} {sc()}",
            ])()
        mode = lambda: str(c([0, 0, 1, 2, 3]))
        lim = lambda: f"{c([0, 0, 1, 2])} {c([-1, -1, 1, 2, 0, 10])}"
        ops = [
            lambda: f"ZAdd {k} {m()} {self.score()}",
            lambda: f"ZAdd {k} {m()} {self.score()}",
            lambda: f"ZAdd {k} {m()} {self.score()}",
            lambda: f"ZAddNX {k} {m()} {self.score()}",
            lambda: f"ZAddXX {k} {m()} {self.score()}",
            lambda: f"ZAddLT {k} {m()} {self.score()}",
            lambda: f"ZAddGT {k} {m()} {self.score()}",
            lambda: "GeoAdd " + k + "".join(" " + m() + ":" + fbits(c(GEO_LONS)) + ":" + fbits(c(GEO_LATS)) for _ in range(c([1, 1, 2, 3]))),
            lambda: c(["GeoAddNX ", "GeoAddXX ", "GeoAddXX "]) + k + "".join(" " + m() + ":" + fbits(c(GEO_LONS)) + ":" + fbits(c(GEO_LATS)) for _ in range(c([1, 1, 2, 3]))),
            lambda: f"ZIncrBy {k} {m()} {self.score(True)}",
            lambda: f"ZCard {k}",
            lambda: f"ZScore {k} {m()}",
            lambda: f"ZRank {k} {m()}",
            lambda: f"ZRevRank {k} {m()}",
            lambda: f"ZRankWithScore {k} {m()}",
            lambda: f"ZRevRankWithScore {k} {m()}",
            lambda: f"ZExists {k} {m()}",
            lambda: f"ZRange {k} {self.idx()} {self.idx()}",
            lambda: f"ZRangeWithScores {k} {self.idx()} {self.idx()}",
            lambda: f"ZRevRange {k} {self.idx()} {self.idx()}",
            lambda: f"ZRevRangeWithScores {k} {self.idx()} {self.idx()}",
            lambda: f"ZRangeByScore {k} {self.score()} {self.score()} {lim()} {mode()}",
            lambda: f"ZRangeByScoreWithScores {k} {self.score()} {self.score()} {lim()} {mode()}",
            lambda: f"ZRevRangeByScore {k} {self.score()} {self.score()} {lim()} {mode()}",
            lambda: f"ZRevRangeByScoreWithScores {k} {self.score()} {self.score()} {lim()} {mode()}",
            lambda: f"ZCount {k} {self.score()} {self.score()} {mode()}",
            lambda: f"ZRem {k} " + " ".join(m() for _ in range(r.randrange(1, 3))),
            lambda: f"ZRemRangeByRank {k} {self.idx(5)} {self.idx(5)}",
            lambda: f"ZRemRangeByScore {k} {self.score()} {self.score()} {mode()}",
            lambda: f"ZScan {k} {c([0, 0, 1, 2, 5])} {c(['2a', '-', self.pattern()])} {c([10, 1, 2, 0])}",
            lambda: f"ZMax {k}",
            lambda: f"ZMin {k}",
            lambda: self._zstore(),
            lambda: self._zstore(),
        ]
        return "api " + c(ops)()

    def _zstore(self):
        r = self.r
        c = r.choice
        n = r.randrange(1, 4)
        keys = [self.key("zset", 0.05) for _ in range(n)]
        ws = [fbits(c([1, 2, 3, -1, 0.5, 0.1, 1e-3, 1.5, 3.0e3])) for _ in range(c([0, 0, n, max(n - 1, 0)]))]
        agg = c(["-", hx(b"SUM"), hx(b"MIN"), hx(b"MAX"), hx(b"sum")])
        kind = c(["ZUnion", "ZInter", "ZUnionStore", "ZInterStore"])
        body = f"[ {' '.join(keys)} ] [ {' '.join(ws)} ] {agg}"
        if kind.endswith("Store"):
            for _ in range(20):
                dst = self.key("zset", 0.05)
                if dst not in keys:
                    return f"{kind} {dst} {body}"
            return f"ZUnion {body}"
        return f"{kind} {body}"


def stream(rng, families, n, events=None, now0=NOW0, open_line="open a mem", dump_every=25, realtime=False):
    """n operations drawn from the given families. `events`: dict name->probability for gc / flush /
    sleep / reopen lines interleaved between commands."""
    g = G(rng, realtime)
    ops = [open_line]
    now = now0
    fams = {"str": g.strings, "key": g.keyspace, "list": g.lists, "hash": g.hashes, "set": g.sets, "zset": g.zsets}
    events = events or {}
    for i in range(n):
        f = rng.choice(families)
        if f == "exp":
            ops.append(g.expiry(now))
        else:
            ops.append(fams[f]())
        x = rng.random()
        acc = 0.0
        for ev, p in events.items():
            acc += p
            if x < acc:
                if ev == "sleep":
                    ms = rng.choice([1, 5, 999, 1000, 1001, 1500, 2000, 5000, 100000, 3600000])
                    ops.append(f"sleep {ms}")
                    now += ms
                elif ev == "fail":
                    ops.append(f"failset {rng.choice([1, 1, 2, 3])}")      # the next backend writes are rejected
                elif ev == "reopen":
                    # the two logical dumps must be equal (C11); no injected failure may be pending at Close
                    ops += ["failset 0", "ldump", "close", "reopen", "ldump"]
                else:
                    ops.append(ev)
                break
        if dump_every and i % dump_every == dump_every - 1:
            ops.append("dump")
    ops.append("dump")
    return ops
