#!/usr/bin/env python3
"""Re-run a recorded replay on the current tree: implementation, model, side by side."""
import json, os, sys
sys.path.insert(0, os.path.dirname(os.path.abspath(__file__)))
import vlib


def main(path):
    r = json.load(open(path))
    pid = r.get("property", "C00")
    ctx = vlib.Ctx(pid, "quick")
    if r.get("kind") in ("concurrency", "protocol-trace", "txprog-trace"):
        from checks import conc
        return conc.replay(r)
    if r.get("kind") == "proof" or "ops" not in r:
        rc, out = vlib.lake_build(ctx, [f"NodisVerif.Props.{pid}"])
        print(out[-4000:])
        print("broken:", r.get("broken"))
        return 0 if rc == 0 else 1
    ft = r.get("faketime", False)
    rc, _ = vlib.lake_build(ctx, ["driver"])
    h = vlib.build_harness(ctx, faketime=ft)
    g, m = vlib.run_pair(ctx, r["ops"], h, "replay")
    differs = False
    for i, op in enumerate(r["ops"]):
        a = g[i] if i < len(g) else "<missing>"
        b = m[i] if i < len(m) else "<missing>"
        mark = "  " if a == b else "!!"
        differs |= a != b
        print(f"{mark} op   : {op[:200]}\n{mark} impl : {a[:400]}\n{mark} model: {b[:400]}")
    print("DIFFERS" if differs else "SAME")
    return 1 if differs else 0


if __name__ == "__main__":
    sys.exit(main(sys.argv[1]))
