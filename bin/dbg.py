#!/usr/bin/env python3
"""debug helper: dbg.py <families,comma> <n> <seed> [ft] [events]"""
import sys, json, random
import os
sys.path.insert(0, os.path.dirname(os.path.abspath(__file__)))
import vlib, gen_api
fams = sys.argv[1].split(","); n = int(sys.argv[2]); seed = int(sys.argv[3])
ft = "ft" in sys.argv[4:]
events = {}
for a in sys.argv[4:]:
    if "=" in a:
        k, v = a.split("="); events[k] = float(v)
ctx = vlib.Ctx("DBG", "quick")
ctx.rng = random.Random(seed)
rc, out = vlib.lake_build(ctx, ["driver"])
if rc: print(out[-3000:]); sys.exit(1)
h = vlib.build_harness(ctx, faketime=ft)
open_line = "open a pebble /tmp/dbg-pebble" if "pebble" in sys.argv[4:] else "open a mem"
ops = gen_api.stream(ctx.rng, fams, n, events=events, open_line=open_line, realtime=not ft)
vlib.correspond_stream(ctx, h, ops, "dbg")
print("violations", len(ctx.violations), "evals", ctx.cov["evaluations"], "notes", ctx.notes)
for p, _ in ctx.violations:
    r = json.load(open(p))
    print('   ... %d ops' % len(r['ops']))
    for o, a, b in list(zip(r['ops'], r['impl'], r['model']))[-7:]:
        print(("   " if a == b else "!! ") + o[:160], '|', a[:300], '|', b[:300])
