#!/usr/bin/env python3
"""Shared machinery of the nodis verification checks (see DESIGN.md §3.2/3.3).

One run of one check =
  1. build the Go harness from /repo's *current working tree* (build tag `verif`)
  2. (re)generate Lean facts from the source where the property has a regenerated tie
  3. `lake build` the property's theorems + the model driver  -> proof obligations re-checked
  4. audit: every theorem of Props/<ID>.lean exists, has no sorry, uses only the 3 standard axioms
  5. correspondence: same operation lines through the real code (harness) and the Lean model
     (driver); canonical outputs are diffed; first divergence is shrunk and written as a replay
  6. known findings replayed, evidence written, exit code
"""
import fcntl, hashlib, json, os, random, re, shutil, subprocess, sys, time

ROOT = os.environ.get("VERIF_ROOT") or os.path.dirname(os.path.dirname(os.path.abspath(__file__)))   # relocatable (private copies of sub-agents)
LEAN = f"{ROOT}/lean"
# development-time relocation (parallel runs against scratch copies of the repository): the registered
# commands never set these, so they work on /repo and write under /verif
REPO = os.environ.get("VERIF_REPO") or "/repo"
OUT = os.environ.get("VERIF_SCRATCH") or ROOT          # build/, work/, evidence/, replays/ live here
BUILD = f"{OUT}/build"
WORK = f"{OUT}/work"
GOENV = dict(os.environ, GOFLAGS="-mod=mod", GOPROXY="off", GOSUMDB="off", GOTOOLCHAIN="local")
ALLOWED_AXIOMS = {"propext", "Classical.choice", "Quot.sound"}
TRUSTED_BASE = [
    "Lean 4.33.0 kernel; axioms propext, Classical.choice, Quot.sound only (no native_decide, no bv_decide, no own axioms, no sorry)",
    "the hand-written Lean model is tied to /repo by the correspondence run of this check (differential execution of model and implementation on the same operation lines); it is trusted only as far as that run exercised it",
    "Go harness + canonicaliser (/verif/harness) and the orchestrator (/verif/bin)",
    "modelled, not verified: tidwall/btree (as a sorted map), Pebble, Go runtime/sync/net, strconv float parsing/formatting, IEEE arithmetic, protobuf, OS/file system; pointer wiring inside ds/zset is checked on the implementation by the VerifCheck hook (ds/list has a pointer-level model with proofs, Model/LinkedList.lean, tied by a whole-structure comparison in C02)",
]


class Ctx:
    def __init__(self, pid, tier):
        self.pid = pid
        self.tier = tier
        self.seed = int(os.environ.get("VERIF_SEED", "1"))
        self.rng = random.Random(self.seed * 1000003 + sum(map(ord, pid)))
        self.t0 = time.time()
        self.work = f"{WORK}/{pid}"
        # nothing of an earlier run (in particular of a run on a modified tree) may be read by this one
        shutil.rmtree(self.work, ignore_errors=True)
        os.makedirs(self.work, exist_ok=True)
        os.makedirs(f"{OUT}/evidence", exist_ok=True)
        os.makedirs(f"{OUT}/replays/{pid}", exist_ok=True)
        self.violations = []       # (replay_path, no_input_found: bool)
        self.known = []            # printed KNOWN-FINDING lines
        self.cov = {"evaluations": 0, "samples": [], "streams": {}, "distribution": {}}
        self.obligations = 0
        self.discharged = 0
        self.theorems = []
        self.notes = []
        self.nontrivial = set()

    def log(self, *a):
        print(f"[{self.pid} {time.time()-self.t0:6.1f}s]", *a, flush=True)


def sh(cmd, cwd=None, env=None, timeout=3600, stdin=None):
    p = subprocess.run(cmd, cwd=cwd, env=env, timeout=timeout, input=stdin,
                       capture_output=True, text=True, errors="replace", shell=isinstance(cmd, str))
    return p.returncode, p.stdout, p.stderr


class Lock:
    def __init__(self, name):
        os.makedirs(BUILD, exist_ok=True)
        self.f = open(f"{BUILD}/.{name}.lock", "w")

    def __enter__(self):
        fcntl.flock(self.f, fcntl.LOCK_EX)

    def __exit__(self, *a):
        fcntl.flock(self.f, fcntl.LOCK_UN)


def build_harness(ctx, faketime=False):
    """go build the harness against /repo's working tree. Returns path of the binary."""
    name = "harness_ft" if faketime else "harness"
    out = f"{BUILD}/{name}"
    with Lock("go"):
        hdir = f"{ROOT}/harness"
        if REPO != "/repo":
            hdir = f"{OUT}/harness-src"
            shutil.rmtree(hdir, ignore_errors=True)
            shutil.copytree(f"{ROOT}/harness", hdir)
            gm = open(f"{hdir}/go.mod").read().replace("=> /repo", "=> " + REPO)
            open(f"{hdir}/go.mod", "w").write(gm)
        subprocess.run(["cp", f"{REPO}/go.sum", f"{hdir}/go.sum"], check=False)
        env = dict(GOENV)
        tags = "verif"
        if faketime:
            env["CGO_ENABLED"] = "0"
            tags = "verif,faketime"
        # never run a stale binary - and never take the binary away from a check that runs at the same time: build next to
        # it and rename over it (atomic; a process that is executing the old file keeps it)
        tmp = f"{out}.new.{os.getpid()}"
        cover = ["-cover", "-coverpkg=vharness,github.com/diiyw/nodis/..."] if os.environ.get("VERIF_COVER") else []   # bin/coverage.py only
        rc, so, se = sh(["go", "build", *cover, "-tags", tags, "-o", tmp, "."], cwd=hdir, env=env, timeout=1500)
        if rc == 0:
            os.replace(tmp, out)
        else:
            if os.path.exists(tmp):
                os.remove(tmp)
            if os.path.exists(out):
                os.remove(out)      # the tree does not build: nothing may be run
    if rc != 0:
        ctx.log("HARNESS BUILD FAILED\n" + se[-4000:])
        raise SystemExit(harness_error(ctx, "go build of the harness against /repo failed:\n" + se[-2000:]))
    return out


def harness_error(ctx, msg):
    """/repo does not build (or the harness is broken): not a verdict about the property."""
    path = f"{OUT}/replays/{ctx.pid}/build-failure.json"
    json.dump({"kind": "harness-build-failure", "message": msg}, open(path, "w"), indent=1)
    print(f"VIOLATION property={ctx.pid} replay={path} no-failing-input-found")
    write_evidence(ctx, extra={"build_failure": msg[-500:]})
    return 1


def lake_build(ctx, targets):
    with Lock("lake"):
        rc, so, se = sh(["lake", "build"] + targets, cwd=LEAN, timeout=3000)
    return rc, so + se


def theorem_names(pid):
    src = open(f"{LEAN}/NodisVerif/Props/{pid}.lean").read()
    # strip comments
    src = re.sub(r"/-.*?-/", "", src, flags=re.S)
    src = re.sub(r"--.*", "", src)
    return re.findall(r"^theorem\s+([^\s:({\[]+)", src, flags=re.M)


def audit(ctx, extra_modules=()):
    """#print axioms for every theorem in Props/<pid>.lean. Returns list of failing theorem names."""
    names = theorem_names(ctx.pid)
    ctx.theorems = names
    ctx.obligations += len(names)
    lines = [f"import NodisVerif.Props.{ctx.pid}"] + [f"import {m}" for m in extra_modules]
    for n in names:
        lines.append(f"#print axioms NodisVerif.{ctx.pid}.{n}")
    path = f"{ctx.work}/Audit.lean"
    open(path, "w").write("\n".join(lines) + "\n")
    with Lock("lake"):
        rc, so, se = sh(["lake", "env", "lean", path], cwd=LEAN, timeout=1200)
    out = so + se
    bad = []
    # parse blocks: "'X' depends on axioms: [a, b]" or "'X' does not depend on any axioms"
    found = {}
    for m in re.finditer(r"'([^'\s]+'*)' depends on axioms: \[([^\]]*)\]", out, flags=re.S):
        found[m.group(1)] = {a.strip() for a in m.group(2).replace("\n", " ").split(",") if a.strip()}
    for m in re.finditer(r"'([^'\s]+'*)' does not depend on any axioms", out):
        found[m.group(1)] = set()
    for n in names:
        full = f"NodisVerif.{ctx.pid}.{n}"
        ax = found.get(full)
        if ax is None:
            bad.append((n, "not found / did not elaborate"))
        elif not ax <= ALLOWED_AXIOMS:
            bad.append((n, "axioms " + ",".join(sorted(ax - ALLOWED_AXIOMS))))
        else:
            ctx.discharged += 1
    # forbidden tokens in the property's proof sources
    forb = re.compile(r"\b(sorry|admit|native_decide|bv_decide|implemented_by|unsafe)\b|^axiom\s|maxHeartbeats 0\b", re.M)
    for fn in proof_sources(ctx.pid):
        txt = open(fn).read()
        txt = re.sub(r"/-.*?-/", "", txt, flags=re.S)
        txt = re.sub(r"--.*", "", txt)
        m = forb.search(txt)
        if m:
            bad.append((os.path.basename(fn), f"forbidden token {m.group(0)!r}"))
    return bad, out


def proof_sources(pid):
    """Props/<pid>.lean plus everything it (transitively) imports from NodisVerif."""
    seen, todo = set(), [f"NodisVerif.Props.{pid}"]
    while todo:
        mod = todo.pop()
        fn = f"{LEAN}/" + mod.replace(".", "/") + ".lean"
        if fn in seen or not os.path.exists(fn):
            continue
        seen.add(fn)
        for m in re.findall(r"^import\s+(NodisVerif[\w.]*)", open(fn).read(), flags=re.M):
            todo.append(m)
    return sorted(seen)


def run_pair(ctx, ops, harness, tag="ops", timeout=1200, driver_args=()):
    """Run the same op lines through G (harness) and M (driver); returns (g_lines, m_lines)."""
    opsf = f"{ctx.work}/{tag}.ops"
    gout = f"{ctx.work}/{tag}.g"
    annf = f"{ctx.work}/{tag}.ann"
    open(opsf, "w").write("\n".join(ops) + "\n")
    for f in (gout, annf):
        if os.path.exists(f):
            os.remove(f)
    env = dict(GOENV)
    if "harness_ft" in harness:
        # Go's faketime clock only advances when the scheduler is idle; with several Ps that
        # detection is racy (Sleep occasionally spins forever). One P makes it deterministic.
        env["GOMAXPROCS"] = "1"
    try:
        rc, so, se = sh([harness, "-i", opsf, "-o", gout, "-a", annf], timeout=timeout, env=env)
    except subprocess.TimeoutExpired:
        rc, se = -9, "TIMEOUT"
    g = open(gout).read().split("\n") if os.path.exists(gout) else []
    if g and g[-1] == "":
        g.pop()
    if rc != 0:
        if "all goroutines are asleep - deadlock" in se or rc == -9:
            g.append("HANG")          # the Go runtime reports the self-deadlock (or the watchdog expired)
        else:
            tail = [l for l in se.strip().splitlines() if l.strip()]
            g.append(f"X(harness exit {rc}: {tail[0][:160] if tail else ''})")
    # the model reads the annotated lines (op + now= / choice= oracles written by the harness);
    # lines the harness never reached (crash) are fed unannotated
    ann = open(annf).read().split("\n") if os.path.exists(annf) else []
    if ann and ann[-1] == "":
        ann.pop()
    ann = ann + ops[len(ann):]
    open(annf, "w").write("\n".join(ann) + "\n")
    p = subprocess.run([f"{LEAN}/.lake/build/bin/driver", *driver_args], stdin=open(annf), capture_output=True, text=True, timeout=timeout)
    m = p.stdout.split("\n")
    if m and m[-1] == "":
        m.pop()
    return g, m


def first_diff(g, m, n):
    for i in range(n):
        a = g[i] if i < len(g) else "<missing>"
        b = m[i] if i < len(m) else "<missing>"
        if a != b:
            return i
    return None


def record_violation(ctx, kind, payload, no_input=False):
    blob = json.dumps(payload, sort_keys=True)
    h = hashlib.sha1(blob.encode()).hexdigest()[:12]
    path = f"{OUT}/replays/{ctx.pid}/{kind}-{h}.json"
    payload = dict(payload, kind=kind, property=ctx.pid, seed=ctx.seed, tier=ctx.tier)
    json.dump(payload, open(path, "w"), indent=1)
    ctx.violations.append((path, no_input))
    return path


def correspond_stateless(ctx, harness, ops, tag, label=None, spec_of=None):
    """Each line is an independent case. Reports every differing line (up to 5) as a violation."""
    g, m = run_pair(ctx, ops, harness, tag)
    ctx.cov["evaluations"] += len(ops)
    ctx.cov["streams"][label or tag] = len(ops)
    bad = 0
    for i, op in enumerate(ops):
        a = g[i] if i < len(g) else "<missing>"
        b = m[i] if i < len(m) else "<missing>"
        if a != b:
            bad += 1
            if bad <= 5:
                record_violation(ctx, "correspondence", {"ops": [op], "impl": [a], "model": [b], "stream": label or tag,
                                                         "explain": "model (Lean, proved to satisfy the property) and implementation disagree on this input"})
        else:
            ctx.nontrivial.add(classify(op, a))
    if len(ctx.cov["samples"]) < 6 and ops:
        k = ctx.rng.randrange(len(ops))
        ctx.cov["samples"].append({"op": ops[k][:300], "impl": (g[k] if k < len(g) else "")[:300], "model": (m[k] if k < len(m) else "")[:300]})
    return bad


def correspond_stream(ctx, harness, ops, tag, label=None, shrink=True):
    """A stateful stream (first line opens an instance). First divergence is shrunk and reported."""
    g, m = run_pair(ctx, ops, harness, tag)
    ctx.cov["evaluations"] += len(ops)
    ctx.cov["streams"][label or tag] = ctx.cov["streams"].get(label or tag, 0) + len(ops)
    for i, op in enumerate(ops):
        if i < len(g) and i < len(m) and g[i] == m[i]:
            ctx.nontrivial.add(classify(op, g[i]))
            toks = op.split()
            if len(toks) > 1:
                ctx.cov["distribution"][toks[1] if toks[0] == "api" else toks[0]] = ctx.cov["distribution"].get(toks[1] if toks[0] == "api" else toks[0], 0) + 1
    # direct check on the implementation alone: the logical keyspace before Close and after reopening
    # must be identical (C11); independent of the model
    for i, op in enumerate(ops):
        if op == "close" and i >= 1 and i + 2 < len(ops) and ops[i - 1] == "ldump" and ops[i + 1] == "reopen" and ops[i + 2] == "ldump":
            ctx.cov["reopen_cycles"] = ctx.cov.get("reopen_cycles", 0) + 1
            if i + 2 < len(g) and g[i - 1] != g[i + 2] and g[i - 1].startswith(("ldump", "#")) and g[i + 2].startswith(("ldump", "#")):
                record_violation(ctx, "reopen-differs", {"ops": ops[:i + 3], "impl": g[:i + 3], "model": m[:i + 3], "stream": label or tag,
                                                         "faketime": "harness_ft" in harness,
                                                         "explain": "the implementation's logical keyspace after Close + reopen differs from the one before Close (last and fourth-last line)"})
                return 1
    # direct check on the implementation alone (C20): after the primary's change records have been
    # applied to the replica, the two logical keyspaces are identical
    for i, op in enumerate(ops):
        if op.startswith("replicate ") and i + 3 < len(ops) and ops[i + 1] == "ldump" and ops[i + 2].startswith("inst ") and ops[i + 3] == "ldump" and i + 3 < len(g):
            ctx.cov["replications"] = ctx.cov.get("replications", 0) + 1
            if not g[i].startswith("ok") or g[i + 1] != g[i + 3]:
                j = max((k for k in range(i) if ops[k].startswith("replicate ")), default=0)
                record_violation(ctx, "replica-differs", {"ops": ops[:i + 4], "impl": g[:i + 4], "model": m[:i + 4], "stream": label or tag,
                                                          "since_last_replication": ops[j:i + 1], "faketime": "harness_ft" in harness,
                                                          "explain": "the primary's change records, sent through Encode/DecodeOp and applied to an initially identical replica, did not bring the replica to the primary's logical state (compare the last and the third-last line), or a record could not be decoded / applied"})
                return 1
    d = first_diff(g, m, len(ops))
    if len(ctx.cov["samples"]) < 6 and len(ops) > 3:
        k = ctx.rng.randrange(1, len(ops) - 2)
        ctx.cov["samples"].append({"stream": label or tag, "ops": ops[k:k + 3], "impl": g[k:k + 3], "model": m[k:k + 3]})
    if d is None:
        return 0
    if any("UNSUPPORTED" in x for x in m[:d + 1]):
        ctx.notes.append(f"{tag}: model left its float fragment at line {d} (generator problem, stream ignored from there)")
        return 0
    fail = ops[:d + 1]
    # setup lines (open / conn / inst) are never removed by the shrinker
    nsetup = 0
    while nsetup < len(fail) and fail[nsetup].split()[0] in ("open", "conn", "inst", "watch"):
        nsetup += 1
    setup = fail[:nsetup]
    if shrink and len(fail) > nsetup + 1:
        def still(cand):
            cand = setup + cand
            gg, mm = run_pair(ctx, cand, harness, tag + "-shrink")
            dd = first_diff(gg, mm, len(cand))
            return dd is not None and not any("UNSUPPORTED" in x or "bad-op" in x for x in (mm[:dd + 1] + gg[:dd + 1]))
        body = shrink_sequence(ctx, harness, fail[nsetup:], tag, still)
        fail = setup + body
    gg, mm = run_pair(ctx, fail, harness, tag + "-final")
    if first_diff(gg, mm, len(fail)) is None:      # shrunk case did not reproduce (random selectors): keep the prefix
        fail = ops[:d + 1]
        gg, mm = g[:d + 1], m[:d + 1]
    record_violation(ctx, "correspondence", {"ops": fail, "impl": gg, "model": mm, "stream": label or tag,
                                             "faketime": "harness_ft" in harness,
                                             "explain": "first divergence between the implementation and the Lean model on this (shrunk) operation sequence"})
    return 1


def classify(op, out):
    """(command, outcome-shape) — the unit in which distinct non-trivial cases are counted."""
    toks = op.split()
    head = " ".join(toks[:2]) if toks and toks[0] in ("ev", "api", "resp") else (toks[0] if toks else "")
    shape = re.sub(r"[0-9a-f]{6,}", "H", out)
    shape = re.sub(r"\d+", "9", shape)[:60]
    sizes = tuple(sorted({len(t) // 8 for t in toks[2:6]}))
    return (head, shape, sizes)


def shrink_sequence(ctx, harness, ops, tag, still_fails, budget_s=None):
    """Delta debugging over an op sequence (stateful streams), within a time budget (the divergence is
    reported either way; shrinking only makes the replay shorter)."""
    cur = list(ops)
    n = 2
    t_end = time.time() + (budget_s if budget_s is not None else (90 if ctx.tier == "quick" else 600))
    while len(cur) >= 2 and time.time() < t_end:
        chunk = max(1, len(cur) // n)
        reduced = False
        for i in range(0, len(cur), chunk):
            if time.time() >= t_end:
                break
            cand = cur[:i] + cur[i + chunk:]
            if cand and still_fails(cand):
                cur = cand
                n = max(n - 1, 2)
                reduced = True
                break
        if not reduced:
            if chunk == 1:
                break
            n = min(n * 2, len(cur))
    return cur


def corpus_ops(pid, suffix="ops"):
    """minimised past failures (incl. the witnesses of repaired defects): always run first"""
    fn = f"{ROOT}/corpus/{pid}.{suffix}"
    if not os.path.exists(fn):
        return []
    return [l.strip() for l in open(fn) if l.strip() and not l.startswith("#")]


def replay_known_findings(ctx, harness, harness_ft=None):
    """Each listed finding is replayed on the implementation: if it still shows the recorded wrong
    behaviour (which is also what the model predicts), print KNOWN-FINDING; if the implementation no
    longer behaves as recorded the entry is stale: that is a divergence from the model => violation."""
    for f in load_findings(ctx.pid):
        if f.get("status") != "known":
            continue
        w = f["witness"]
        h = harness_ft if (w.get("faketime") and harness_ft) else harness
        g, m = run_pair(ctx, w["ops"], h, "finding-" + f["id"], timeout=w.get("timeout", 60))
        ctx.cov["evaluations"] += len(w["ops"])
        last_g = g[len(w["ops"]) - 1] if len(g) >= len(w["ops"]) else (g[-1] if g else "<none>")
        last_m = m[len(w["ops"]) - 1] if len(m) >= len(w["ops"]) else "<none>"
        if last_g == w["impl"] and last_m == w["impl"]:
            ctx.known.append(f"KNOWN-FINDING: property={ctx.pid} {f['id']} {f['what']}")
        else:
            record_violation(ctx, "finding-changed", {"finding": f["id"], "ops": w["ops"], "impl": g, "model": m,
                                                     "recorded": w["impl"], "faketime": bool(w.get("faketime")),
                                                     "explain": "a recorded known finding no longer reproduces as recorded: implementation and model disagree or both changed"})


def load_findings(pid):
    fn = f"{ROOT}/known_findings.json"
    if not os.path.exists(fn):
        return []
    return [f for f in json.load(open(fn))["findings"] if f["property"] == pid]


def write_evidence(ctx, extra=None):
    cov = dict(ctx.cov)
    cov["obligations"] = max(ctx.obligations, 1)
    if ctx.discharged >= 1:
        cov["discharged"] = ctx.discharged      # schema: proof keys only when something was discharged
    else:
        cov["discharged_none"] = True
    cov["checker_cmd"] = f"cd /verif/lean && lake build NodisVerif.Props.{ctx.pid} && lake env lean ../work/{ctx.pid}/Audit.lean   # #print axioms on every theorem"
    cov["trusted_base"] = TRUSTED_BASE
    cov["theorems"] = ctx.theorems
    cov["distinct_nontrivial"] = len(ctx.nontrivial)
    cov["rule"] = ("correspondence cases are generated by bin/gen (seeded PRNG + exhaustive boundary tables); a case is "
                   "non-trivial/distinct by its (command, canonical outcome shape, argument size class) triple on which model and implementation agreed")
    cov["programs"] = cov["evaluations"]
    cov["disagreements_checked"] = len(ctx.violations)
    cov["known_findings_replayed"] = ctx.known
    cov["notes"] = ctx.notes
    if extra:
        cov.update(extra)
    ev = {
        "property_id": ctx.pid, "tier": ctx.tier, "seed": ctx.seed, "level": "proof",
        "coverage": cov,
        "assumptions": TRUSTED_BASE,
        "wall_s": round(time.time() - ctx.t0, 2),
        "violations": len(ctx.violations),
    }
    json.dump(ev, open(f"{OUT}/evidence/{ctx.pid}.json", "w"), indent=1)


def finish(ctx):
    for line in ctx.known:
        print(line)
    write_evidence(ctx)
    if ctx.violations:
        for path, no_input in ctx.violations[:1]:
            print(f"VIOLATION property={ctx.pid} replay={path}" + (" no-failing-input-found" if no_input else ""))
        return 1
    ctx.log(f"OK obligations={ctx.obligations} discharged={ctx.discharged} evaluations={ctx.cov['evaluations']} distinct={len(ctx.nontrivial)}")
    return 0


# the regenerated tie: which source facts (extracted by /verif/extract, stated in Spec/SourceFacts.lean)
# each property's model and proofs rely on; proved anew, for the freshly extracted tables, by every run
FACT_THEOREMS = {
    "consts": "theorem source_constants_match_model : constsOk consts = true := by decide +kernel",
    "dispatch": "theorem source_dispatch_is_the_expected_table : dispatch = expectedDispatch ∧ dispatchDefault = \"cmdNotFound\" := by decide +kernel",
    "exec": "theorem source_exec_frame : execOk execBody = true := by decide +kernel",
    "pebble": "theorem source_pebble_writes_are_synchronous : pebbleOk pebbleCalls noSyncMentions = true := by decide +kernel",
    "signal": "theorem source_writers_signal : writersSignal writers = true := by decide +kernel",
    "notify": "theorem source_writers_notify : writersNotify writers = true := by decide +kernel",
    "patch": "theorem source_patch_table_is_the_model_table : patchOk patchOps patchOpTypes patchDecodeShape = true := by decide +kernel",
}
FACTS_OF = {
    "C01": ["consts", "dispatch"], "C02": ["dispatch"], "C03": ["consts", "dispatch"], "C04": ["dispatch"],
    "C05": ["exec"], "C06": ["exec"], "C07": ["exec"], "C08": ["consts", "dispatch"], "C09": ["signal", "dispatch"],
    "C10": ["dispatch"], "C11": ["consts"], "C12": ["consts"], "C13": ["pebble"], "C14": ["consts"], "C15": ["dispatch"],
    "C16": ["dispatch", "consts"], "C17": ["consts", "dispatch"], "C18": ["dispatch"], "C19": ["dispatch"], "C20": ["notify", "consts", "patch"],
}


def facts_stage(ctx):
    """Regenerate the source facts from REPO and prove this property's obligations about them.
    Returns a list of (name, why) that failed."""
    wanted = FACTS_OF.get(ctx.pid, [])
    if not wanted:
        return []
    exe = f"{BUILD}/extract"
    with Lock("go"):
        rc, so, se = sh(["go", "build", "-o", exe, "."], cwd=f"{ROOT}/extract", env=GOENV, timeout=600)
    if rc != 0:
        return [("extract", "the fact extractor does not build: " + se[-300:])]
    rc, gen, se = sh([exe, REPO], timeout=120)
    ctx.obligations += len(wanted)
    if rc != 0:
        return [("extract", "the source no longer has the shape the facts are read from: " + se.strip()[-300:])]
    names = [re.search(r"theorem (\w+)", FACT_THEOREMS[w]).group(1) for w in wanted]
    body = ["import NodisVerif.Spec.SourceFacts", gen, "open NodisVerif NodisVerif.SourceFacts NodisVerif.Generated", "namespace NodisVerif.Tie"]
    body += [FACT_THEOREMS[w] for w in wanted] + ["end NodisVerif.Tie"] + [f"#print axioms NodisVerif.Tie.{n}" for n in names]
    path = f"{ctx.work}/SourceFacts.lean"
    open(path, "w").write("\n".join(body) + "\n")
    with Lock("lake"):
        rc, so, se = sh(["lake", "env", "lean", path], cwd=LEAN, timeout=1200)
    out = so + se
    bad = []
    for n in names:
        m = re.search(r"'NodisVerif\.Tie\." + n + r"' (does not depend on any axioms|depends on axioms: \[([^\]]*)\])", out, flags=re.S)
        ax = set() if not m or not m.group(2) else {a.strip() for a in m.group(2).replace("\n", " ").split(",") if a.strip()}
        if not m or not ax <= ALLOWED_AXIOMS:
            err = re.search(r"SourceFacts\.lean:\d+:\d+: error:[^\n]*(\n[^\n]*){0,6}", out)
            bad.append((n, "source fact no longer holds (regenerated table in " + path + "): " + (err.group(0)[:500] if err else "not proved")))
        else:
            ctx.discharged += 1
            ctx.theorems.append("Tie." + n)
    ctx.cov["source_facts"] = {"extractor": "/verif/extract (go/ast)", "facts": wanted, "theorems": names, "failed": [b[0] for b in bad]}
    return bad


# ---- the regenerated tie, second kind: translated function bodies (extract -translate, docs/go2lean.md) ----
# /verif/translated/<group>.lean: committed theorems about `NodisVerif.Translated.*`; header lines
#   -- functions: <dir> <Func>, ...     -- properties: C01 C14     -- import: NodisVerif.Model.DsStr
TRANSLATED_DIR = f"{ROOT}/translated"


def translated_groups():
    out = []
    if not os.path.isdir(TRANSLATED_DIR):
        return out
    for fn in sorted(os.listdir(TRANSLATED_DIR)):
        if not fn.endswith(".lean"):
            continue
        txt = open(f"{TRANSLATED_DIR}/{fn}").read()
        props = re.findall(r"^-- properties:(.*)$", txt, flags=re.M)
        imps = re.findall(r"^-- import:\s*(\S+)", txt, flags=re.M)
        funcs = re.findall(r"^-- functions:(.*)$", txt, flags=re.M)
        bare = re.sub(r"/-.*?-/", "", txt, flags=re.S)
        bare = re.sub(r"--.*", "", bare)
        names = re.findall(r"^theorem\s+([^\s:({\[]+)", bare, flags=re.M)
        out.append({"name": fn[:-5], "text": txt, "bare": bare, "props": " ".join(props).split(), "imports": imps,
                    "functions": [f.strip() for f in ",".join(funcs).split(",") if f.strip()], "theorems": names})
    return out


def translated_imports(pid):
    mods = ["NodisVerif.Model.GoLib"]
    for g in translated_groups():
        if pid is None or pid in g["props"]:
            mods += [m for m in g["imports"] if m not in mods]
    return mods


def run_translated(groups, workdir, repo=None):
    """Translate the target functions of `repo` anew and elaborate the committed theorems of `groups` about them.
    Returns (bad, info): bad = [(theorem or function, why)]."""
    repo = repo or REPO
    exe = f"{BUILD}/extract"
    with Lock("go"):
        rc, so, se = sh(["go", "build", "-o", exe, "."], cwd=f"{ROOT}/extract", env=GOENV, timeout=600)
    if rc != 0:
        return [("go2lean", "the translator does not build: " + se[-300:])], {}
    t0 = time.time()
    rc, gen, se = sh([exe, "-translate", repo, f"{ROOT}/extract/go2lean.targets"], timeout=120)
    bad = []
    outside = [l for l in se.splitlines() if l.startswith("go2lean:")]
    if rc not in (0, 3) or not gen.strip():
        return [("go2lean", "the translator failed: " + se.strip()[-400:])], {}
    mods = ["NodisVerif.Model.GoLib"]
    for g in groups:
        mods += [m for m in g["imports"] if m not in mods]
    names = [n for g in groups for n in g["theorems"]]
    body = [f"import {m}" for m in mods] + [gen]
    for g in groups:
        body += [f"-- ==== translated/{g['name']}.lean ====", g["text"]]
    body += [f"#print axioms NodisVerif.TranslatedTie.{n}" for n in names]
    path = f"{workdir}/Translated.lean"
    open(path, "w").write("\n".join(body) + "\n")
    try:
        with Lock("lake"):
            # own process group: on a timeout the lean process (a grandchild) must go too
            pr = subprocess.Popen(["lake", "env", "lean", path], cwd=LEAN, stdout=subprocess.PIPE, stderr=subprocess.STDOUT,
                                  text=True, errors="replace", start_new_session=True)
            try:
                out, _ = pr.communicate(timeout=int(os.environ.get("VERIF_TRANSLATE_TIMEOUT", "240")))
            except subprocess.TimeoutExpired:
                import signal
                os.killpg(pr.pid, signal.SIGKILL)
                pr.communicate()
                raise
    except subprocess.TimeoutExpired:
        # e.g. a slip that makes a kernel evaluation diverge: every obligation of the run counts as not proved
        out = f"{path}:1:1: error: elaboration of the obligations did not finish in time (a changed function makes an evaluation diverge)"
        out = out.replace(path, "Translated.lean")
    forb = re.compile(r"\b(sorry|admit|native_decide|bv_decide|implemented_by|unsafe)\b|^axiom\s|maxHeartbeats 0\b", re.M)
    # where each theorem starts in the work file, to attribute Lean's errors to theorems
    flines = open(path).read().split("\n")
    starts = sorted((i + 1, m.group(1)) for i, l in enumerate(flines) for m in [re.match(r"theorem\s+([^\s:({\[]+)", l)] if m)
    errs = [(int(m.group(1)), m.group(0)) for m in re.finditer(r"Translated\.lean:(\d+):\d+: error:[^\n]*(?:\n(?!\S*Translated\.lean:\d+)[^\n]*){0,6}", out)]

    def error_of(name):
        for k, (ln, n) in enumerate(starts):
            if n == name:
                end = starts[k + 1][0] if k + 1 < len(starts) else len(flines) + 1
                for eln, txt in errs:
                    if ln <= eln < end:
                        return txt
        return None
    ok = []
    for g in groups:
        m = forb.search(g["bare"])
        if m:
            bad.append((f"translated/{g['name']}.lean", f"forbidden token {m.group(0)!r}"))
        missing = [l for l in outside if any((" " + f + ":") in l for f in g["functions"])]
        for n in g["theorems"]:
            m = re.search(r"'NodisVerif\.TranslatedTie\." + re.escape(n) + r"' (does not depend on any axioms|depends on axioms: \[([^\]]*)\])", out, flags=re.S)
            ax = set() if not m or not m.group(2) else {a.strip() for a in m.group(2).replace("\n", " ").split(",") if a.strip()}
            if not m or not ax <= ALLOWED_AXIOMS or "sorryAx" in ax:
                why = "; ".join(missing)[:400] if missing else ""
                if not why:
                    why = (error_of(n) or (errs[0][1] if errs else "not proved"))[:500]
                bad.append((n, f"obligation about translated Go code no longer holds (translated/{g['name']}.lean over {path}): {why}"))
            else:
                ok.append(n)
    info = {"translator": "/verif/extract -translate (go/ast, docs/go2lean.md)", "groups": [g["name"] for g in groups],
            "functions": sorted({f for g in groups for f in g["functions"]}), "theorems": ok,
            "failed": [b[0] for b in bad], "outside_subset": outside, "wall_s": round(time.time() - t0, 2)}
    return bad, info


def translate_stage(ctx):
    groups = [g for g in translated_groups() if ctx.pid in g["props"]]
    if not groups:
        return []
    n = sum(len(g["theorems"]) for g in groups)
    ctx.obligations += n
    bad, info = run_translated(groups, ctx.work)
    ctx.discharged += len(info.get("theorems", []))
    ctx.theorems += ["TranslatedTie." + t for t in info.get("theorems", [])]
    ctx.cov["translated_code"] = info
    return bad


def proof_stage(ctx, extra_targets=()):
    """Steps 3+4. Returns True if all obligations were discharged."""
    rc, out = lake_build(ctx, [f"NodisVerif.Props.{ctx.pid}", "NodisVerif.Spec.SourceFacts", "driver", *translated_imports(ctx.pid), *extra_targets])
    if rc != 0:
        first = re.search(r"error: ([^\n]*\.lean:\d+:\d+:[^\n]*)", out)
        ctx.notes.append("lake build failed: " + (first.group(1) if first else out[-300:]))
        ctx.broken_proof = first.group(1) if first else "lake build failed"
        ctx.obligations += max(1, len(theorem_names(ctx.pid)))
        ctx.build_log = out[-6000:]
        return False
    bad, out = audit(ctx)
    bad = bad + facts_stage(ctx) + translate_stage(ctx)
    if bad:
        ctx.broken_proof = "; ".join(f"{n}: {why}" for n, why in bad)
        ctx.build_log = out[-3000:]
        return False
    return True
