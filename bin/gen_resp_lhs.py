"""RESP stream generators for the list, hash and set handler families (Handler2.lean).

FAMILIES = {"lists": f, "hashes": f, "sets": f}, each f(g: gen_resp.R, conn) -> one `resp ...` line.
Every command goes through g.cmd (arity / operand fuzz) except where a note says why not.
"""
import re
import gen_resp
from gen_resp import hx, NUMS

COUNTS = [b"0", b"1", b"1", b"2", b"3", b"5", b"10", b"-1", b"-2"]
IDX = [b"0", b"1", b"2", b"3", b"-1", b"-2", b"-3", b"5", b"-5", b"100", b"-100"]
INT64_MIN = b"-9223372036854775808"
_INT = re.compile(rb"^[+-]?[0-9]+$")


def go_int(tok):
    """strconv.ParseInt(tok, 10, 64) of a hex token, None on error"""
    if tok == "-" or tok.startswith("r"):
        return None
    try:
        b = bytes.fromhex(tok)
    except ValueError:
        return None
    if not _INT.match(b):
        return None
    v = int(b)
    return v if -2**63 <= v < 2**63 else None


def raw(conn, *parts):
    """a command exactly as given (no fuzz)"""
    return f"resp {conn} " + " ".join([hx(parts[0])] + list(parts[1:]))


def on_tx_conn(g, conn):
    return len(g.conns) > 1 and conn == g.conns[-1]


def fix(line, name, pos, bad, repl):
    """replace argument `pos` (0-based after the name) of command `name` when bad(token)"""
    t = line.split()
    if len(t) > 3 + pos and bytes.fromhex(t[2]).upper() == name and bad(t[3 + pos]):
        t[3 + pos] = hx(repl)
        return " ".join(t)
    return line


# ------------------------------------------------------------------------------------------ lists
def lists(g, conn):
    r = g.r
    c = r.choice
    k = g.k("list")
    a, b = g.two("list")
    vals = lambda lo, hi: [g.val() for _ in range(r.randrange(lo, hi))]
    where = lambda: c([g.word("BEFORE"), g.word("AFTER"), g.word("BEFORE"), g.word("AFTER"), hx(b"before "), hx(b"x"), hx(b"")])
    ops = [
        lambda: ["LPUSH", k] + vals(1, 4), lambda: ["RPUSH", k] + vals(1, 4),
        lambda: ["LPUSH", k] + vals(1, 4), lambda: ["RPUSH", k] + vals(1, 4),
        lambda: ["LPOP", k] + ([g.num(pool=COUNTS)] if r.random() < 0.5 else []),
        lambda: ["RPOP", k] + ([g.num(pool=COUNTS)] if r.random() < 0.5 else []),
        lambda: ["LLEN", k],
        lambda: ["LINDEX", k, g.num(pool=IDX)],
        lambda: ["LINSERT", k, where(), g.val(), g.val()],
        lambda: ["LPUSHX", k] + vals(1, 3),
        lambda: ["RPUSHX", k] + vals(1, 3),
        lambda: ["LREM", k, g.num(pool=[b"0", b"1", b"2", b"-1", b"-2", b"5"]), g.val()],
        lambda: ["LTRIM", k, g.num(pool=IDX), g.num(pool=IDX)],
        lambda: ["LSET", k, g.num(pool=IDX), g.val()],
        lambda: ["LRANGE", k, g.num(pool=IDX), g.num(pool=IDX)],
        lambda: ["LRANGE", k, hx(b"0"), hx(b"-1")],
        lambda: ["LPOPRPUSH", a, b],
        lambda: ["RPOPLPUSH", a, b],
    ]
    p = c(ops)()
    if p[0] == "RPUSHX" and on_tx_conn(g, conn):
        # RPUSHX with fewer than two arguments answers twice (error + QUEUED) inside MULTI: the
        # one-reply-per-command framing of the harness cannot follow that, so on the connection that
        # opens transactions RPUSHX is only sent with its full arity
        return raw(conn, *p)
    line = g.cmd(conn, *p)
    # LREM k -2^63 v: known divergence of the *API model* (DsList.lrem) from linked_list.go, reported
    # separately; kept out of the stream so that it does not mask everything behind it
    line = fix(line, b"LREM", 1, lambda t: t == hx(INT64_MIN), b"-5")
    return line


# ----------------------------------------------------------------------------------------- hashes
HF = hx(b"hf")                          # the only key HINCRBYFLOAT is sent to: its fields only ever hold
HF_FIELDS = [hx(b"f1"), hx(b"f2")]     # integer text or plainly non-numeric text (model's float fragment)
HF_VALUES = [b"0", b"5", b"-3", b"+5", b"007", b"12a", b"", b"99", b"abc", b"0.1", b"1e3", b"-.5", b"5.", b"1e400", b"1e-400", b"0.1e1", b"1_000",
             b"inf", b"-Infinity", b"1.7976931348623157e308", b"9007199254740993", b"0.30000000000000004", b"4.9e-324", b"1E5", b"-0", b"nan"]
HF_DELTAS = [b"1", b"-1", b"2", b"10", b"(3", b"(-2", b"0", b"abc", b"", b"(", b"1x", b"0.1", b"0.2", b"1e-3", b"3.0e3", b"-.5", b"5.", b"1e400",
             b"1e-400", b"0.1e1", b"0.30000000000000004", b"1e16", b"1e300", b"-1e300", b"1.7976931348623157e308", b"5e-324", b"(0.25", b"1_000",
             b"1e", b".", b"nan", b"inf", b"123456.789"]


def hashes(g, conn):
    r = g.r
    c = r.choice
    k = g.k("hash")
    f = g.member
    pairs = lambda lo, hi: [t for _ in range(r.randrange(lo, hi)) for t in (f(), g.val())]
    fields = lambda lo, hi: [f() for _ in range(r.randrange(lo, hi))]
    odd = lambda: [f()] if r.random() < 0.15 else []
    ops = [
        lambda: ["HSET", k] + pairs(1, 4) + odd(), lambda: ["HSET", k] + pairs(1, 4) + odd(),
        lambda: ["HSET", k, f(), g.val()],
        lambda: ["HGET", k, f()], lambda: ["HGET", k, f()],
        lambda: ["HDEL", k] + fields(1, 4),
        lambda: ["HLEN", k],
        lambda: ["HKEYS", k],
        lambda: ["HEXISTS", k, f()],
        lambda: ["HGETALL", k],
        lambda: ["HINCRBY", k, f(), g.num(pool=[b"1", b"-1", b"5", b"100", b"9223372036854775807", b"-9223372036854775808"])],
        lambda: ["HSETNX", k, f(), g.val()],
        lambda: ["HMGET", k] + fields(1, 4),
        lambda: ["HMSET", k] + pairs(1, 4) + odd(),
        lambda: ["HCLEAR", g.k("hash", 0.3)],
        lambda: ["HSTRLEN", k, f()],
        lambda: ["HVALS", k],
        "hf", "hf", "hf",
    ]
    p = c(ops)
    if p != "hf":
        p = p()
        if p[0] == "HGETALL" and on_tx_conn(g, conn):
            # inside EXEC the pair order of a queued HGETALL (Go map iteration) is not canonicalised by
            # harness/driver (they only sort a top-level HGETALL reply): the transaction connection
            # asks for keys and values separately instead
            p = [c(["HKEYS", "HVALS"]), k]
        return g.cmd(conn, *p)
    # the float corner: never fuzzed by g.cmd (an arbitrary operand could leave the model's fragment)
    ff = c(HF_FIELDS)
    hf_ops = [
        lambda: ["HINCRBYFLOAT", HF, ff, hx(c(HF_DELTAS))],
        lambda: ["HINCRBYFLOAT", HF, ff, hx(c(HF_DELTAS))],
        lambda: ["HINCRBYFLOAT", HF, ff, hx(c(HF_DELTAS))],
        lambda: ["HINCRBYFLOAT", HF, ff, hx(c(HF_DELTAS)), hx(b"junk")],
        lambda: ["HINCRBYFLOAT", HF, ff],
        lambda: ["HINCRBYFLOAT", HF],
        lambda: ["HINCRBYFLOAT"],
        lambda: ["HINCRBYFLOAT", c([hx(b"l1"), hx(b"s1"), hx(b"t1"), hx(b"nokey")]), ff, hx(c([b"1", b"2", b"abc"]))],
        lambda: ["HSET", HF, ff, hx(c(HF_VALUES))],
        lambda: ["HSET", HF, ff, hx(c(HF_VALUES))],
        lambda: ["HMSET", HF, HF_FIELDS[0], hx(c(HF_VALUES)), HF_FIELDS[1], hx(c(HF_VALUES))],
        lambda: ["HSETNX", HF, ff, hx(c(HF_VALUES))],
        lambda: ["HINCRBY", HF, ff, hx(c([b"1", b"-1", b"7", b"abc"]))],
        lambda: ["HGET", HF, ff],
        lambda: [c(["HKEYS", "HVALS"]) if on_tx_conn(g, conn) else "HGETALL", HF],
        lambda: ["HDEL", HF, ff],
        lambda: ["HCLEAR", HF],
    ]
    return raw(conn, *c(hf_ops)())


# ------------------------------------------------------------------------------------------- sets
def sets(g, conn):
    r = g.r
    c = r.choice
    k = g.k("set")
    a, b = g.two("set")
    m = g.member
    members = lambda lo, hi: [m() for _ in range(r.randrange(lo, hi))]
    keys = lambda lo, hi, wrong=0.08: [g.k("set", wrong) for _ in range(r.randrange(lo, hi))]
    ops = [
        lambda: ["SADD", k] + members(1, 5), lambda: ["SADD", k] + members(1, 5), lambda: ["SADD", k] + members(1, 5),
        lambda: ["SMOVE", a, b, m()],
        lambda: ["SCARD", k],
        lambda: ["SPOP", k] + ([g.num(pool=COUNTS)] if r.random() < 0.5 else []),
        lambda: ["SDIFF"] + keys(2, 5), lambda: ["SINTER"] + keys(2, 5), lambda: ["SUNION"] + keys(2, 5),
        lambda: [c(["SDIFF", "SINTER", "SUNION"])] + keys(1, 2),
        lambda: ["SDIFFSTORE", g.k("set")] + keys(1, 4, 0.04),
        lambda: ["SINTERSTORE", g.k("set")] + keys(1, 4, 0.04),
        lambda: ["SUNIONSTORE", g.k("set")] + keys(1, 4, 0.04),
        lambda: ["SISMEMBER", k, m()],
        lambda: ["SMEMBERS", k], lambda: ["SMEMBERS", k],
        lambda: ["SRANDMEMBER", k] + ([g.num(pool=[b"0", b"1", b"2", b"3", b"5", b"-1", b"-2", b"-3", b"-5"])] if r.random() < 0.6 else []),
        lambda: ["SREM", k] + members(1, 4),
    ]
    line = g.cmd(conn, *c(ops)())
    # SRANDMEMBER k -n returns n members: a huge negative count is a memory bomb, not a test
    def too_negative(t):
        v = go_int(t)
        return v is not None and v < -50
    line = fix(line, b"SRANDMEMBER", 1, too_negative, b"-4")
    return line


FAMILIES = {"lists": lists, "hashes": hashes, "sets": sets}
