#!/usr/bin/env python3
"""debug helper: dbgresp.py <families,comma> <n> <seed> [ft] [conns=2] [ev=prob ...] [mod=<python module with FAMILIES dict>]"""
import sys, json, random, importlib
import os
sys.path.insert(0, os.path.dirname(os.path.abspath(__file__)))
import vlib, gen_resp
fams = sys.argv[1].split(","); n = int(sys.argv[2]); seed = int(sys.argv[3])
ft = "ft" in sys.argv[4:]
events, conns, extra = {}, ("c1",), None
for a in sys.argv[4:]:
    if a.startswith("conns="):
        conns = tuple(f"c{i+1}" for i in range(int(a[6:])))
    elif a.startswith("mod="):
        extra = importlib.import_module(a[4:]).FAMILIES
    elif "=" in a:
        k, v = a.split("="); events[k] = float(v)
ctx = vlib.Ctx("DBG", "quick")
ctx.rng = random.Random(seed)
rc, out = vlib.lake_build(ctx, ["driver"])
if rc: print(out[-3000:]); sys.exit(1)
h = vlib.build_harness(ctx, faketime=ft)
ops = gen_resp.stream(ctx.rng, fams, n, conns=conns, events=events, realtime=not ft, extra_families=extra)
vlib.correspond_stream(ctx, h, ops, "dbg")
print("violations", len(ctx.violations), "evals", ctx.cov["evaluations"], "notes", ctx.notes)
for p, _ in ctx.violations:
    r = json.load(open(p))
    print('   ... %d ops' % len(r['ops']))
    for o, a, b in list(zip(r['ops'], r['impl'], r['model']))[-8:]:
        print(("   " if a == b else "!! ") + o[:160], '|', a[:300], '|', b[:300])
