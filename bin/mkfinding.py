#!/usr/bin/env python3
"""Development-time tool (never used by a check): record a known finding with its witness.
usage: mkfinding.py <id> <property> <what> [ft] -- <op line> ...   (ops separated by ';;')"""
import sys, json, os
sys.path.insert(0, os.path.dirname(os.path.abspath(__file__)))
import vlib
fid, pid, what = sys.argv[1:4]
rest = sys.argv[4:]
ft = False
if rest and rest[0] == "ft":
    ft = True; rest = rest[1:]
assert rest[0] == "--"
ops = [o.strip() for o in " ".join(rest[1:]).split(";;") if o.strip()]
ctx = vlib.Ctx(pid, "quick")
h = vlib.build_harness(ctx, faketime=ft)
g, m = vlib.run_pair(ctx, ops, h, "mkfinding")
for o, a, b in zip(ops, g, m):
    print(("   " if a == b else "!! ") + o, "|", a, "|", b)
assert g[:len(ops)] == m[:len(ops)], "model and implementation disagree on the witness: not a *known* finding"
fn = f"{vlib.ROOT}/known_findings.json"
db = json.load(open(fn))
db["findings"] = [f for f in db["findings"] if f["id"] != fid]
db["findings"].append({"id": fid, "property": pid, "status": "known", "what": what,
                       "witness": {"ops": ops, "impl": g[len(ops) - 1], "faketime": ft}})
json.dump(db, open(fn, "w"), indent=1)
print("recorded", fid)
