"""Generators of RESP-level command streams: `resp <conn> <name> <args...>` (all tokens hex).

Mostly well-formed commands built from the command's documented syntax, plus a malformed share:
wrong arity (0..n+2 arguments), option words in odd positions / odd case, non-numeric or empty
operands where numbers are expected, wrong-type keys. Nothing here knows the state.
"""
import gen_api
from gen_api import hx, KEYS, ALLKEYS, VALUES, MEMBERS, PATTERNS

NUMS = [b"0", b"1", b"-1", b"2", b"5", b"10", b"100", b"-100", b"007", b"+5", b"abc", b"", b"1.5", b"9223372036854775807",
        b"-9223372036854775808", b"9223372036854775808", b"99999999999999999999", b" 1", b"1 "]
SMALLNUMS = [b"0", b"1", b"2", b"3", b"-1", b"-2", b"5", b"10"]
FLOATS = [b"0", b"1", b"-1", b"2", b"3", b"10", b"(1", b"(2", b"abc", b"", b"1.5", b"inf", b"-inf", b"+inf", b"nan",
          b"0.1", b"1e-3", b"3.0e3", b"-.5", b"5.", b"1e400", b"1e-400", b"0.1e1", b"(0.5", b"1_0"]
# INCRBYFLOAT operands and stored texts: fractions, exponents, range errors, underflow, 17-digit values, subnormals
FLOAT_ARGS = [b"1", b"-1", b"2", b"10", b"(3", b"", b"abc", b"0.1", b"0.2", b"1e-3", b"3.0e3", b"-.5", b"5.", b"1e400", b"-1e400", b"1e-400", b"0.1e1",
              b"0.30000000000000004", b"1e16", b"1e300", b"-1e300", b"1.7976931348623157e308", b"5e-324", b"(0.25", b"1_000", b"1e", b".", b"1E+2",
              b"9007199254740993", b"123456.789", b"nan", b"inf"]
FLOAT_TEXTS = [b"0", b"5", b"-3", b"+5", b"007", b"12a", b"", b"99", b"0.1", b"1e3", b"-.5", b"5.", b"1e400", b"1e-400", b"0.1e1", b"1_000", b"inf",
               b"-Infinity", b"1.7976931348623157e308", b"9007199254740993", b"0.30000000000000004", b"4.9e-324", b"1E5", b"-0", b"00.50", b"nan", b"NaN"]


# option words of the protocol, used now and then as ordinary values / members / key names: a word is an
# option only in the positions its command's syntax gives it
OPTWORDS = [b"NX", b"nx", b"XX", b"xx", b"Nx", b"KEEPTTL", b"keepttl", b"GET", b"get", b"EX", b"PX", b"EXAT", b"PXAT", b"COUNT", b"count",
            b"MATCH", b"match", b"LIMIT", b"WITHSCORES", b"withscores", b"BEFORE", b"AFTER", b"BIT", b"BYTE", b"CH", b"INCR", b"GT", b"LT",
            b"TYPE", b"REV", b"BYSCORE", b"BYLEX", b"WEIGHTS", b"AGGREGATE", b"ASC", b"DESC", b"ANY", b"STORE"]


class R(gen_api.G):
    def __init__(self, rng, realtime=False, conns=("c1",)):
        super().__init__(rng, realtime)
        self.conns = list(conns)

    def val(self):
        if self.r.random() < 0.07:
            return hx(self.r.choice(OPTWORDS))
        return super().val()

    def member(self):
        if self.r.random() < 0.05:
            return hx(self.r.choice(OPTWORDS))
        return super().member()

    # --- argument atoms ---------------------------------------------------------------------
    def k(self, fam, wrong=0.12):
        return self.key(fam, wrong)

    def num(self, good=0.85, pool=SMALLNUMS):
        r = self.r
        return hx(r.choice(pool)) if r.random() < good else hx(r.choice(NUMS))

    def word(self, w):
        """an option word, sometimes in odd case"""
        r = self.r
        x = r.random()
        if x < 0.7:
            return hx(w.encode())
        if x < 0.9:
            return hx(w.lower().encode())
        return hx("".join(c.lower() if r.random() < 0.5 else c for c in w).encode())

    def mangle(self, toks):
        """arity / operand fuzz on a well-formed command (list of hex tokens, name first)"""
        r = self.r
        x = r.random()
        if x < 0.80:
            return toks
        if x < 0.88:                                  # drop a suffix
            return toks[:r.randrange(1, len(toks) + 1)]
        if x < 0.93:                                  # append junk
            return toks + [self.val() for _ in range(r.randrange(1, 3))]
        if x < 0.97 and len(toks) > 1:                # replace one operand by an edge value
            i = r.randrange(1, len(toks))
            return toks[:i] + [hx(r.choice(NUMS + [b"NX", b"XX", b"COUNT", b"MATCH", b"LIMIT", b"WITHSCORES", b"GET", b"EX"]))] + toks[i + 1:]
        return [toks[0]]                              # name only

    def cmd(self, conn, *parts):
        toks = [hx(parts[0].encode() if isinstance(parts[0], str) else parts[0])] + list(parts[1:])
        if parts[0] in ("INCRBYFLOAT", "HINCRBYFLOAT", "ZINCRBY"):
            return f"resp {conn} " + " ".join(toks)      # float text outside the model's integer fragment is not generated
        return f"resp {conn} " + " ".join(self.mangle(toks))

    # --- families ---------------------------------------------------------------------------
    def strings(self, conn):
        r = self.r
        c = r.choice
        k = self.k("str")
        def set_cmd():
            parts = ["SET", k, self.val()]
            opts = []
            if r.random() < 0.3:
                opts.append(self.word(c(["NX", "XX"])))
            if r.random() < 0.2:
                opts.append(self.word("GET"))
            if r.random() < 0.3:
                if self.realtime:
                    opts += [self.word(c(["EXAT", "PXAT"])), hx(c([b"1", b"4102444800", b"4102444800000", b"abc"]))]
                else:
                    opts += [self.word(c(["EX", "PX", "EXAT", "PXAT"])), hx(c([b"1", b"100", b"1500", b"0", b"-1", b"abc", b"", b"1257894005", b"1257894001500"]))]
            if r.random() < 0.15:
                opts.append(self.word("KEEPTTL"))
            r.shuffle(opts) if r.random() < 0.2 else None
            return parts + opts
        ops = [
            lambda: set_cmd(), lambda: set_cmd(),
            lambda: ["GET", k], lambda: ["GET", k],
            lambda: ["GETSET", k, self.val()],
            lambda: ["SETNX", k, self.val()],
            lambda: ["APPEND", k, self.val()],
            lambda: ["STRLEN", k],
            lambda: ["GETRANGE", k, self.num(pool=[b"0", b"1", b"-1", b"-3", b"2", b"100", b"-100"]), self.num(pool=[b"0", b"1", b"-1", b"-3", b"2", b"100", b"-100"])],
            lambda: ["SETRANGE", k, self.num(pool=[b"0", b"1", b"2", b"5", b"70", b"-1"]), self.val()],
            lambda: ["INCR", k], lambda: ["DECR", k],
            lambda: ["INCRBY", k, self.num(pool=[b"1", b"-1", b"5", b"100", b"9223372036854775807"])],
            lambda: ["DECRBY", k, self.num(pool=[b"1", b"-1", b"5", b"100", b"-9223372036854775808"])],
            lambda: ["INCRBYFLOAT", "6631", hx(c(FLOAT_ARGS))],
            lambda: ["INCRBYFLOAT", "6631", hx(c(FLOAT_ARGS))],
            lambda: ["SET", "6631", hx(c(FLOAT_TEXTS))],
            lambda: ["SETBIT", k, self.num(pool=[b"0", b"1", b"7", b"8", b"15", b"100", b"-1"]), hx(c([b"0", b"1", b"2", b"x", b""]))],
            lambda: ["GETBIT", k, self.num(pool=[b"0", b"1", b"7", b"8", b"15", b"100", b"-1"])],
            lambda: ["BITCOUNT", k] + ([self.num(), self.num()] if r.random() < 0.6 else []) + ([self.word(c(["BIT", "BYTE"]))] if r.random() < 0.3 else []),
            lambda: ["MSET"] + [t for _ in range(r.randrange(1, 4)) for t in (self.k("str"), self.val())],
            lambda: ["MGET"] + [self.k("str", 0.2) for _ in range(r.randrange(1, 4))],
        ]
        if not self.realtime:
            ops.append(lambda: ["SETEX", k, self.num(pool=[b"1", b"2", b"100", b"0", b"-1"]), self.val()])
        p = c(ops)()
        return self.cmd(conn, *p)

    def keyspace(self, conn, now=gen_api.NOW0):
        r = self.r
        c = r.choice
        fam = c(["str", "list", "hash", "set", "zset"])
        k = self.k(fam, 0.3)
        a, b = self.two(fam)
        ops = [
            lambda: ["DEL"] + [self.k(fam, 0.3) for _ in range(r.randrange(1, 4))],
            lambda: ["UNLINK", k],
            lambda: ["EXISTS"] + [self.k(fam, 0.3) for _ in range(r.randrange(1, 4))],
            lambda: ["TYPE", k], lambda: ["TYPE", k],
            lambda: ["RENAME", a, b],
            lambda: ["RENAMENX", a, b],
            lambda: ["KEYS", self.pattern()],
            lambda: ["KEYS", "2a"],
            lambda: ["RANDOMKEY"],
            lambda: ["DBSIZE"],
            lambda: ["PING"] + ([self.val()] if r.random() < 0.5 else []),
            lambda: ["ECHO", self.val()],
            lambda: ["NOSUCHCMD", self.val()],
            lambda: ["SCAN", self.num(pool=[b"0", b"0", b"1", b"2", b"5", b"100"])]
                    + ([self.word("MATCH"), c(["2a", self.pattern()])] if r.random() < 0.4 else [])
                    + ([self.word("COUNT"), self.num(pool=[b"1", b"2", b"10", b"100", b"0"])] if r.random() < 0.4 else [])
                    + ([self.word("TYPE"), hx(c([b"string", b"LIST", b"hash", b"set", b"zset", b"nope"]))] if r.random() < 0.3 else []),
            lambda: ["PERSIST", k],
        ]
        if self.realtime:
            far = c([b"1", b"1257894000", b"4102444800", b"abc"])
            ops += [lambda: ["EXPIREAT", k, hx(far)] + ([self.word(c(["NX", "XX", "GT", "LT"]))] if r.random() < 0.4 else [])]
        else:
            secs = c([b"1", b"2", b"5", b"100", b"3600", b"0", b"-1", b"abc", b""])
            ts = str(now // 1000 + c([-10, 5, 3600, 0])).encode()
            ops += [
                lambda: ["EXPIRE", k, hx(secs)] + ([self.word(c(["NX", "XX", "GT", "LT"]))] if r.random() < 0.4 else []),
                lambda: ["EXPIREAT", k, hx(ts)] + ([self.word(c(["NX", "XX", "GT", "LT"]))] if r.random() < 0.4 else []),
                lambda: ["TTL", k], lambda: ["PTTL", k],
            ]
        p = c(ops)()
        return self.cmd(conn, *p)

    def tx(self, conn):
        """connection-state commands"""
        r = self.r
        c = r.choice
        ops = [
            lambda: ["MULTI"], lambda: ["MULTI"],
            lambda: ["EXEC"], lambda: ["EXEC"], lambda: ["EXEC"],
            lambda: ["DISCARD"],
            lambda: ["WATCH"] + [self.k(c(["str", "list", "set"]), 0.2) for _ in range(r.randrange(0, 3))],
            lambda: ["UNWATCH"],
        ]
        p = c(ops)()
        # no arity mangling for these: they take no arguments (WATCH handled above)
        return f"resp {conn} " + " ".join([hx(p[0].encode())] + p[1:])


def stream(rng, families, n, conns=("c1",), events=None, realtime=False, open_line="open a mem", dump_every=40,
           extra_families=None, now0=gen_api.NOW0):
    """n RESP commands over the given connections; `families` are names of R methods
    (strings, keyspace, tx, and whatever `extra_families` maps: name -> function(R, conn) -> line)."""
    g = R(rng, realtime, conns)
    ops = [open_line] + [f"conn {c}" for c in conns]
    now = now0
    events = events or {}
    txconn = conns[-1] if len(conns) > 1 else None
    for i in range(n):
        conn = rng.choice(conns)
        f = rng.choice(families)
        if f == "tx":
            if txconn is None:
                continue
            conn = txconn          # only the last connection ever opens transactions ...
        if extra_families and f in extra_families:
            ops.append(extra_families[f](g, conn))
        elif f == "keyspace":
            ops.append(g.keyspace(conn, now))
        else:
            ops.append(getattr(g, f)(conn))
        # ... and it never issues relational commands (their reply cannot be predicted at EXEC time)
        if txconn and ops[-1].startswith(f"resp {txconn} "):
            t = ops[-1].split()
            name = bytes.fromhex(t[2]).upper() if len(t) > 2 and t[2] != "-" and "x" not in t[2] else b""
            if name in (b"RANDOMKEY", b"SPOP", b"SRANDMEMBER"):
                ops[-1] = f"resp {txconn} 54595045 7331"
        x = rng.random()
        acc = 0.0
        for ev, p in events.items():
            acc += p
            if x < acc:
                if ev == "sleep":
                    ms = rng.choice([1, 5, 999, 1000, 1001, 1500, 2000, 5000, 100000])
                    ops.append(f"sleep {ms}")
                    now += ms
                else:
                    ops.append(ev)
                break
        if dump_every and i % dump_every == dump_every - 1:
            ops.append("dump")
    ops.append("dump")
    return ops
