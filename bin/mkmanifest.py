#!/usr/bin/env python3
"""Regenerates /verif/MANIFEST.json from the table below (kept in one place so it stays valid)."""
import json, subprocess

CLAIMED = {
    # id: (technique, level text, level note, design ref)
    "C14": ("Lean 4 proof (induction on lists / strong induction on naturals) of codec round trips + injectivity; model tied to /repo by differential execution of every codec through the real encoders/decoders",
            "Theorems in lean/NodisVerif/Props/C14.lean: varint/uvarint round trip for every int64/uint64 with arbitrary trailing bytes, key codec round trip and injectivity for every name and deadline, round trip of all five value codecs for every well-formed value of every size (sorted sets incl. the rebuilt skiplist order, every non-NaN score bit pattern). The model's encoders/decoders are executed against ds.Key.Encode/DecodeKey, <type>.GetValue/SetValue and the storage entry envelope on boundary tables, random values and (thorough) every element length 0..16500; the buffer-independence clause is decided on the implementation by overwriting the source buffer after decoding.",
            "Lean kernel + propext/Classical.choice/Quot.sound; the correspondence run (generator quality bounds it); Go's encoding/binary is modelled (Varint.lean), not verified; buffer aliasing is decided by execution only (a pure model cannot exhibit it).",
            "DESIGN.md §6 C14"),
    "C02": ("Lean 4 proof that the list model refines an abstract sequence specification (all indexes, counts, lengths, command sequences) + differential execution of the model against the real lists through the embedded API on both backends",
            "Theorems in lean/NodisVerif/Props/C02.lean (56): the hand-maintained length counter always equals the number of elements; LRANGE/LINDEX/LSET/LTRIM/LREM/LINSERT/pops/pushes equal the Redis reference semantics on plain sequences for every Int index and count; whole command sequences refine the abstract sequence (step_refines, sequence_refines); rotation conserves the multiset; a list that becomes empty is unlinked from the index. The model is executed against the real code on exhaustive index pairs for short lists and on random command streams incl. eviction, expiry, reopen (memory + Pebble); the real linked list's pointer structure is checked by a hook after every dump.",
            "Lean kernel + 3 standard axioms; correspondence run; pointer wiring of ds/list is checked on the implementation (VerifCheck), not proved; API-level theorems assume the key's value is in memory (cold keys are covered by correspondence only).",
            "DESIGN.md §6 C02"),
    "C03": ("Lean 4 proof of extensional map/set laws for the hash and set models (membership-based specifications, set algebra = mathematical ∩ ∪ \\) and of command-sequence refinement + differential execution against the real code",
            "Theorems in lean/NodisVerif/Props/C03.lean (83): association lists as finite maps; HSET/HDEL/HMSET/HGETALL/HLEN/HEXISTS/HSTRLEN/HINCRBY and SADD/SREM/SCARD/SISMEMBER laws stated for every byte string incl. the empty one; SINTER/SUNION/SDIFF equal the mathematical operations with a missing key as the empty set, results duplicate-free; *STORE forms leave exactly the result (or no key) in the destination; SPOP/SRANDMEMBER are validated relationally (only current members, SPOP removes exactly what it returns); emptied collections are unlinked; whole command sequences refine the abstract map/set. Known findings (HINCRBY overflow wraps, SPOP negative count, empty collections via the embedded API) are replayed and printed.",
            "Lean kernel + 3 standard axioms; correspondence run; tidwall/btree is modelled as a sorted association list; HINCRBYFLOAT only on integer-valued text (float text conversion is outside the model).",
            "DESIGN.md §6 C03"),
    "C04": ("Lean 4 proof of the sorted-set invariant (dictionary/index agreement, strict (score, member) order) for every operation sequence and of rank/score/range queries against the sorted-list specification + differential execution incl. a structural check of the real skiplist",
            "Theorems in lean/NodisVerif/Props/C04.lean (43): ZSet.WF is preserved by every mutator for every non-NaN score, insertion order, tie and update (wf_run over arbitrary operation lists); the index chain equals the dictionary sorted by (score, member); ZCARD/ZSCORE/ZRANK/ZREVRANK/ZCOUNT/ZRANGEBYSCORE (all bound modes, LIMIT, both directions)/ZREMRANGEBYRANK/ZREMRANGEBYSCORE equal the specification on the sorted list. Rank windows of ZRANGE/ZREVRANGE are proved equal to the specification only on an explicit region (their 1-based behaviour is pinned by the repository's tests: known finding with closed forms and witnesses). The real skiplist (spans, levels, backward links, dictionary agreement) is validated by a hook after every dump, on exhaustive short sequences and on 400-member sets.",
            "Lean kernel + 3 standard axioms; correspondence run; skiplist spans/levels/pointers are checked on the implementation, the model treats the skiplist as its level-0 chain; float order is modelled on IEEE bit patterns, float text conversion is not.",
            "DESIGN.md §6 C04"),
    "C15": ("Lean 4 proof that the RESP reader model inverts the encoder for every name/argument vector, is independent of how the byte stream is split into reads, and recognises option words only as whole arguments + differential execution of the reader model against the real reader on exactly chosen read fragments",
            "Theorems in lean/NodisVerif/Props/C15.lean (23): chunk_independent (the parse of one command, and of a whole connection, depends only on the byte stream, never on the fragmentation), parse_encode (any name and any arguments of arbitrary bytes within the 512 MiB protocol limit come back exactly, name upper-cased), parse_too_large (beyond the limit: an error, never a panic or an allocation), pipeline (k commands back to back, any chunking, are read in order), options_whole_argument / upper_nonascii_never_a_word, connections_independent. The model is executed against redis.Reader through a hook that serves one connection on a fake net.Conn delivering exactly the chosen fragments: every single cut and double cut of short pipelines, random fragmentations incl. byte-by-byte, arguments larger than the 4096-byte buffer, depth-1000 pipelines, malformed frames, inline commands and noise.",
            "Lean kernel + 3 standard axioms; correspondence run; net.Conn semantics (a Read returns 1..len(p) bytes of the stream in order) is an assumption of the source model; 'one connection never affects another' holds in the model by construction (no shared reader state) and is not separately tested under thread interleavings.",
            "DESIGN.md §6 C15"),
}
NOT_YET = {
}

def main():
    props = [json.loads(l) for l in open("/verif/properties.jsonl")]
    hooks = subprocess.run(["git", "-C", "/repo", "log", "--format=%H %s"], capture_output=True, text=True).stdout.splitlines()
    hook_commits = [l.split()[0] for l in hooks if "verif hook" in l]
    checks, na = [], []
    for p in props:
        pid = p["id"]
        if pid in CLAIMED:
            tech, text, note, ref = CLAIMED[pid]
            checks.append({
                "property_id": pid,
                "quick_cmd": f"python3 bin/vcheck.py {pid} quick",
                "thorough_cmd": f"python3 bin/vcheck.py {pid} thorough",
                "evidence_file": f"/verif/evidence/{pid}.json",
                "replay_cmd_template": "python3 bin/vcheck.py replay {path}",
                "engine": "lean4-proof+correspondence",
                "level_claimed": {"category": "proof", "text": text, "design_ref": ref},
                "level_note": note,
                "technique": tech,
            })
        else:
            na.append({"property_id": pid, "reason": NOT_YET.get(pid, "check not built yet in this round; the Lean-proof technique applies (see DESIGN.md §6), nothing is claimed until the check exists and passes on the unchanged tree")})
    m = {
        "version": 1,
        "setup_cmd": "bash bin/setup.sh",
        "hooks": {
            "guard": "verif",
            "enable": "go build -tags verif (the harness module /verif/harness replaces github.com/diiyw/nodis => /repo); the deterministic-clock harness additionally uses -tags faketime with CGO_ENABLED=0",
            "baseline_off_cmd": "cd /repo && GOFLAGS=-mod=mod GOPROXY=off GOSUMDB=off GOTOOLCHAIN=local go test -json -vet=off -count=1 -timeout 25m ./...",
            "source_commits": hook_commits,
            "add_only": True,
        },
        "engines": [{
            "name": "lean4-proof+correspondence", "path": "/verif/lean",
            "serves_properties": sorted(CLAIMED),
            "kind_free_text": "Lean 4 theorems about a hand-written executable model of nodis (lake project, core-only model, compiled driver); the model is tied to /repo on every run by differential execution against the real code through a Go harness (build tag verif) and, for table-shaped facts, by a go/ast extractor that regenerates Lean definitions",
        }],
        "checks": checks,
        "not_applicable": na,
        "notes": "All checks: python3 bin/vcheck.py <ID> quick|thorough; exit 1 + 'VIOLATION property=<id> replay=<path>' on a violation. Known findings: /verif/known_findings.json (read-only at run time).",
    }
    json.dump(m, open("/verif/MANIFEST.json", "w"), indent=1)
    print(f"{len(checks)} checks claimed, {len(na)} not claimed")

if __name__ == "__main__":
    main()
