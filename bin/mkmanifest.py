#!/usr/bin/env python3
"""Regenerates /verif/MANIFEST.json from the table below (kept in one place so it stays valid)."""
import json, subprocess

CLAIMED = {
    # id: (technique, level text, level note, design ref)
    "C14": ("Lean 4 proof (induction on lists / strong induction on naturals) of codec round trips + injectivity; model tied to /repo by differential execution of every codec through the real encoders/decoders",
            "Theorems in lean/NodisVerif/Props/C14.lean: varint/uvarint round trip for every int64/uint64 with arbitrary trailing bytes, key codec round trip and injectivity for every name and deadline, round trip of all five value codecs for every well-formed value of every size (sorted sets incl. the rebuilt skiplist order, every non-NaN score bit pattern). The model's encoders/decoders are executed against ds.Key.Encode/DecodeKey, <type>.GetValue/SetValue and the storage entry envelope on boundary tables, random values and (thorough) every element length 0..16500; the buffer-independence clause is decided on the implementation by overwriting the source buffer after decoding.",
            "Lean kernel + propext/Classical.choice/Quot.sound; the correspondence run (generator quality bounds it); Go's encoding/binary is modelled (Varint.lean), not verified; buffer aliasing is decided by execution only (a pure model cannot exhibit it).",
            "DESIGN.md §6 C14"),
    "C02": ("Lean 4 proof that the list model refines an abstract sequence specification (all indexes, counts, lengths, command sequences) + differential execution of the model against the real lists through the embedded API on both backends",
            "Theorems in lean/NodisVerif/Props/C02.lean (56): the hand-maintained length counter always equals the number of elements; LRANGE/LINDEX/LSET/LTRIM/LREM/LINSERT/pops/pushes equal the Redis reference semantics on plain sequences for every Int index and count; whole command sequences refine the abstract sequence (step_refines, sequence_refines); rotation conserves the multiset; a list that becomes empty is unlinked from the index. The model is executed against the real code on exhaustive index pairs for short lists and on random command streams incl. eviction, expiry, reopen (memory + Pebble); the real linked list's pointer structure is checked by a hook after every dump.",
            "Lean kernel + 3 standard axioms; correspondence run; pointer wiring of ds/list is checked on the implementation (VerifCheck), not proved; API-level theorems assume the key's value is in memory (cold keys are covered by correspondence only).",
            "DESIGN.md §6 C02"),
    "C03": ("Lean 4 proof of extensional map/set laws for the hash and set models (membership-based specifications, set algebra = mathematical ∩ ∪ \\) and of command-sequence refinement + differential execution against the real code",
            "Theorems in lean/NodisVerif/Props/C03.lean (83): association lists as finite maps; HSET/HDEL/HMSET/HGETALL/HLEN/HEXISTS/HSTRLEN/HINCRBY and SADD/SREM/SCARD/SISMEMBER laws stated for every byte string incl. the empty one; SINTER/SUNION/SDIFF equal the mathematical operations with a missing key as the empty set, results duplicate-free; *STORE forms leave exactly the result (or no key) in the destination; SPOP/SRANDMEMBER are validated relationally (only current members, SPOP removes exactly what it returns); emptied collections are unlinked; whole command sequences refine the abstract map/set. Known findings (HINCRBY overflow wraps, SPOP negative count, empty collections via the embedded API) are replayed and printed.",
            "Lean kernel + 3 standard axioms; correspondence run; tidwall/btree is modelled as a sorted association list; HINCRBYFLOAT only on integer-valued text (float text conversion is outside the model).",
            "DESIGN.md §6 C03"),
    "C04": ("Lean 4 proof of the sorted-set invariant (dictionary/index agreement, strict (score, member) order) for every operation sequence and of rank/score/range queries against the sorted-list specification + differential execution incl. a structural check of the real skiplist",
            "Theorems in lean/NodisVerif/Props/C04.lean (43): ZSet.WF is preserved by every mutator for every non-NaN score, insertion order, tie and update (wf_run over arbitrary operation lists); the index chain equals the dictionary sorted by (score, member); ZCARD/ZSCORE/ZRANK/ZREVRANK/ZCOUNT/ZRANGEBYSCORE (all bound modes, LIMIT, both directions)/ZREMRANGEBYRANK/ZREMRANGEBYSCORE equal the specification on the sorted list. Rank windows of ZRANGE/ZREVRANGE are proved equal to the specification only on an explicit region (their 1-based behaviour is pinned by the repository's tests: known finding with closed forms and witnesses). The real skiplist (spans, levels, backward links, dictionary agreement) is validated by a hook after every dump, on exhaustive short sequences and on 400-member sets.",
            "Lean kernel + 3 standard axioms; correspondence run; skiplist spans/levels/pointers are checked on the implementation, the model treats the skiplist as its level-0 chain; float order is modelled on IEEE bit patterns, float text conversion is not.",
            "DESIGN.md §6 C04"),
    "C15": ("Lean 4 proof that the RESP reader model inverts the encoder for every name/argument vector, is independent of how the byte stream is split into reads, and recognises option words only as whole arguments + differential execution of the reader model against the real reader on exactly chosen read fragments",
            "Theorems in lean/NodisVerif/Props/C15.lean (23): chunk_independent (the parse of one command, and of a whole connection, depends only on the byte stream, never on the fragmentation), parse_encode (any name and any arguments of arbitrary bytes within the 512 MiB protocol limit come back exactly, name upper-cased), parse_too_large (beyond the limit: an error, never a panic or an allocation), pipeline (k commands back to back, any chunking, are read in order), options_whole_argument / upper_nonascii_never_a_word, connections_independent. The model is executed against redis.Reader through a hook that serves one connection on a fake net.Conn delivering exactly the chosen fragments: every single cut and double cut of short pipelines, random fragmentations incl. byte-by-byte, arguments larger than the 4096-byte buffer, depth-1000 pipelines, malformed frames, inline commands and noise.",
            "Lean kernel + 3 standard axioms; correspondence run; net.Conn semantics (a Read returns 1..len(p) bytes of the stream in order) is an assumption of the source model; 'one connection never affects another' holds in the model by construction (no shared reader state) and is not separately tested under thread interleavings.",
            "DESIGN.md §6 C15"),
    "C01": ("Lean 4 proof that the string/keyspace model refines an abstract key -> bytes map for whole command streams (trace factorisation of every API function + per-command refinement lemmas) + differential execution of the model against the real code through the embedded API and over TCP",
            "Theorems in lean/NodisVerif/Props/C01.lean (78): stream_refines / stream_from_fresh / command_refines (every reply and the visible keyspace of any stream of SET(+options)/GET/GETSET/SETNX/SETEX/MSET/MGET/APPEND/STRLEN/GETRANGE/SETRANGE/INCR*/DECR*/SETBIT/GETBIT/BITCOUNT/DEL/EXISTS/TYPE/RENAME*/KEYS/DBSIZE/FLUSH equal the abstract map semantics, binary-safe, int64 counters with overflow error), per-command laws, and explicit _finding witnesses where the code deviates (BITCOUNT windows, GETRANGE far-negative stop, SET on a non-string key, empty-string key left behind). Correspondence: random + boundary streams through the embedded API (memory and Pebble, with eviction/reopen) and through the RESP handlers; known findings are replayed against the real code.",
            "Lean kernel + 3 standard axioms; correspondence run; RANDOMKEY is validated relationally (returned key must be live); INCRBYFLOAT only on integer-valued text (float text conversion is outside the model); SafeRun restrictions on SETRANGE/SETBIT/DECRBY arguments are listed in the Props file.",
            "DESIGN.md §6 C01"),
    "C08": ("Lean 4 proof about the connection state machine model (MULTI/EXEC/DISCARD/WATCH, run-or-queue, panic recovery) for every schedule of commands of any number of connections + differential execution against the real server over TCP with 2-3 connections",
            "Theorems in lean/NodisVerif/Props/C08.lean (19): between MULTI and EXEC every command is acknowledged QUEUED and leaves the store and every other connection unchanged; EXEC runs the queue exactly once in order with one reply per queued closure (exec_runs_queue_in_order), a panic in one closure yields an error reply and the rest still run; DISCARD / queue-time error / dirty watch run nothing; after EXEC or DISCARD state, queue, error flag and watches are empty. Isolation ('no other client served in the middle') holds in the model because EXEC is one step; on the implementation it is tied by the correspondence run (interleaved connections) and by the C05-C07 machinery for real concurrency.",
            "Lean kernel + 3 standard axioms; correspondence run; disconnect handling is exercised on the implementation only; atomicity of EXEC under real thread interleavings is not in this model (one step = one command).",
            "DESIGN.md §6 C08"),
    "C09": ("Lean 4 proof that every writer in the full dispatch table signals every key whose content it changes, and that a signalled watched key makes EXEC reply null with no effect, for every schedule + differential execution with a direct WATCH-window oracle on the implementation",
            "Theorems in lean/NodisVerif/Props/C09.lean (98): watch_sound / watch_sound_full (dirty watch => [nullBulk], store unchanged), table1/2/3 signals theorems (fullSafe_signals: every command outside a decidable excluded region signals all keys it changes), watch_complete (no writer of a watched key in the window => EXEC runs), watches end at EXEC/DISCARD/UNWATCH, optimistic increment loop never loses an update. Excluded region (kept as _partial + witness): DECRBY with int64 min on a missing key (known finding A-15b), SCAN with TYPE (unproved, not known false), ZREM family on an unreachable empty sorted set. Correspondence: 2-3 connection streams with WATCH windows; the harness independently compares dump before/after the window on the real server.",
            "Lean kernel + 3 standard axioms; correspondence run; signal delivery under real thread interleavings (signal racing with EXEC) is outside this model.",
            "DESIGN.md §6 C09"),
    "C10": ("Lean 4 proof over the model with an explicit clock: liveness of a key is a function of (deadline, now), every command factors through it; deadline arithmetic of every TTL-setting command + differential execution on a deterministic fake clock",
            "Theorems in lean/NodisVerif/Props/C10.lean (121): a key with deadline d is visible with its full value to every command at now < d and to none at now >= d (expired_invisible_* per command family incl. KEYS/SCAN/RANDOMKEY/RENAME/set algebra), a write to an expired key equals the write on a missing key, deadline = now + duration for EX/PX/SETEX/EXPIRE, absolute for EXAT/PXAT/EXPIREAT, NX/XX conditionals, overwrites and PERSIST clear it, KEEPTTL/APPEND/INCR keep it, TTL/PTTL rounding. GT/LT on a persistent key deviate from Redis (test-pinned known finding A-81). Correspondence: the harness is built with Go's faketime so the clock advances only by `sleep`; streams hit deadlines exactly (999/1000/1001 ms).",
            "Lean kernel + 3 standard axioms; correspondence run under -tags faketime (GOMAXPROCS=1); wall-clock drift and the background eviction ticker are not modelled (gc is an explicit op).",
            "DESIGN.md §6 C10"),
    "C11": ("Lean 4 proof that close followed by reopen restores the logical keyspace for every reachable model state (invariant over all API command sequences, both backend models) + differential execution incl. a direct before/after dump comparison on the real code (memory and Pebble)",
            "Theorems in lean/NodisVerif/Props/C11.lean (27): close_reopen_restores_reachable (same live keys, types, values, deadlines), deleted/renamed/emptied/flushed/retyped/expired keys never reappear, newer version never shadowed by an older persisted one (stored-flag invariant), reloaded values intact. Correspondence streams end with `ldump; close; reopen; ldump` and the two dumps of the REAL instance are compared directly, independent of the model.",
            "Lean kernel + 3 standard axioms; correspondence run; Pebble itself is modelled as a key-value map with atomic batch (its durability is C13's subject).",
            "DESIGN.md §6 C11"),
    "C12": ("Lean 4 simulation proof: for every command sequence and every eviction schedule (gc/flush at arbitrary points) replies and logical state equal the run without eviction; failed backend writes keep entries dirty + differential execution with fault injection",
            "Theorems in lean/NodisVerif/Props/C12.lean (35): any_eviction_schedule_invisible (+ _from_empty, _memory), command_sim, command_preserves_inv, failed write keeps the value in memory and dirty (gc_fail_keeps, flush_fail_keeps). Known finding A-121b (positional SCAN cursor shifts when an eviction pass collects an expired record) is kept as scan_gc_finding. Correspondence: streams with gc/flush/failset events on both backends.",
            "Lean kernel + 3 standard axioms; correspondence run; the fault wrapper makes Put fail deterministically (failset n), other backend errors are not injected.",
            "DESIGN.md §6 C12"),
    "C16": ("Lean 4 proof that every handler of the full dispatch table writes exactly one well-formed RESP value for every argument vector, store, clock and connection state, lifted to pipelines + differential execution and a framing sweep over all dispatch-table commands on the real server",
            "Theorems in lean/NodisVerif/Props/C16.lean (129): fullTable_ok / fullTable_wire_ok (TableOneReply for table1+table2+table3, panics included), one_reply_full for every schedule, pipeline_in_sync_full (k commands + marker => exactly k+1 values in order), bulk replies carry exactly the stored bytes with the correct header, per-command corollaries. Correspondence: the harness frames every reply with a marker ECHO and counts RESP values on the wire; the sweep sends each of the 121 registered commands with 0..5 arguments of several kinds.",
            "Lean kernel + 3 standard axioms; correspondence run; the encoder's byte layout is modelled in Model/Resp.lean (render) and tied by comparing tokens parsed from the real wire bytes; commands missing from the model tables (GEO*, blocking pops, INFO/CONFIG...) are covered by the framing sweep only.",
            "DESIGN.md §6 C16"),
    "C19": ("Lean 4 proof that a full cursor iteration over an unchanged collection returns exactly its live matching elements and terminates within ceil(n/count)+1 calls, for every COUNT >= 1 and pattern + differential execution of complete iterations (scanall) against the real code",
            "Theorems in lean/NodisVerif/Props/C19.lean (39): scan_complete / sscan / hscan / zscan (every element present for the whole iteration is returned, only live matching ones), scan_terminates with the call bound, in-memory vs storage-only values give the same result. Known findings kept with witnesses: positional cursor skips a key when an earlier key is deleted mid-iteration (A-121), embedded-API COUNT 0 never terminates (A-120b). Correspondence: scanall runs the whole cursor loop on the real server and on the model and compares the multiset and the number of calls.",
            "Lean kernel + 3 standard axioms; correspondence run; iteration under concurrent mutation is only covered by the stated known finding, not by a positive theorem.",
            "DESIGN.md §6 C19"),
    "C05": ("Lean 4 proof about a transition-system model of the locking protocol (tx.go / store.go) for every trace of any number of transactions, keys and records + trace correspondence (every protocol step the real code reports through its verifTrace hook must be a step of the model) + concurrent scenarios with invariants on the real code",
            "Theorems in lean/NodisVerif/Props/C05.lean (23): mutual_exclusion / write_lock_exclusive (a write-held record has no other holder), valid_means_current + held_record_stays_registered (a record that passed re-validation is the record registered under its key and stays so until its holder unlinks it or a flush), one_registered_record_per_key, per_key_writers_serial (two transactions never hold the current record of one key unless both read), creators of a missing key are serialized through one placeholder, no_stale_update_example (the lost-update schedule of the original code is rejected by the model). The model is tied to the code by replaying the recorded event trace of every scenario run (lookup, claim, wait, lock, validation, publish, unlink, drop, unlock; 10^5-10^6 events per run of the check) through Proto.step. Scenarios: N concurrent INCRs / pushes on a fresh key, pops racing pushes while the list is emptied and unlinked, create/delete churn, the same over TCP; race windows widened by a hook.",
            "Lean kernel + 3 standard axioms; the protocol model is hand-written and tied by trace inclusion on the schedules that actually ran (not by a proof about the Go code); data accesses are assumed to happen only between acquire's return and the commit (structural in exec(): fn(tx) then deferred commit); Go's sync.RWMutex is modelled as an ideal reader/writer lock; linearizability of each command's effect on the value is the sequential refinement of C01-C04 composed with per-key exclusion.",
            "DESIGN.md §6 C05"),
    "C06": ("Lean 4 proof of deadlock freedom of the locking protocol model (waits-for relation acyclic in every reachable state, some transaction can always move, a commit releases everything) + trace correspondence + command mixes with overlapping key sets under a progress watchdog",
            "Theorems in lean/NodisVerif/Props/C06.lean (17): waits_increase (a blocked transaction holds only keys smaller than the one it waits for), awaited_keys_increase along waits-for edges, no_deadlock (no closed walk of any length in waitsFor, self-loops included), someone_can_move (progress), commit_releases_everything / commit_can_finish (a failing or panicking command - deferred commit - releases all it held), classic_deadlock_rejected (the a-b / b-a schedule is not a run of the model). Tie: the recorded trace must be accepted by the model - a lock requested out of order is a rejected `wait` event even when the run did not deadlock. Scenarios: RENAME / RPOPLPUSH / SMOVE in opposite orders, self-aliasing commands, Z*STORE with destination among the operands, eviction, flush, FLUSHDB, KEYS/SCAN, wrong-type panics, embedded API and TCP; a run is hung when no protocol step happens for 10 s.",
            "Lean kernel + 3 standard axioms; trace inclusion as for C05; termination of each command body (no unbounded loop while holding locks) is not in the model - GEORADIUS's loop was repaired separately; fairness of Go's RWMutex (writer preference) is assumed for 'bounded time'; blocking pops are C18.",
            "DESIGN.md §6 C06"),
    "C07": ("Lean 4 proof of strict two-phase locking for the protocol model (no validated lock released before the commit, all keys held together at the lock point, conflict order follows commit order, conflict graph acyclic) + trace correspondence + observers of multi-key commands on the real code",
            "Theorems in lean/NodisVerif/Props/C07.lean (17): no_early_release, growing_phase_is_over, lock_point / lock_point_trace / lock_point_all_held, precedence_follows_commit_order, conflict_graph_acyclic (for traces whose transaction ids begin once, which the recorder guarantees), moves_hold_both (while a transaction write-holds the registered records of two keys nobody else holds either). A TryLock taken during commit only to drop an unused placeholder is excluded from 'acquisition' (precedence_with_trylock_finding shows why; it touches no value). Scenarios: SUNION / EXISTS / MGET observers of SMOVE / RENAME / MSET+DEL must see the moved member / name exactly once, RPOPLPUSH in both directions conserves the multiset, SUNIONSTORE / SINTERSTORE / ZUNIONSTORE over operands that change together always store a result of one snapshot.",
            "Lean kernel + 3 standard axioms; trace inclusion as for C05; which keys a command declares is read off the run (a command that forgot to declare a key shows up as an out-of-order `wait`), not proved per command.",
            "DESIGN.md §6 C07"),
}
NOT_YET = {
}

def main():
    props = [json.loads(l) for l in open("/verif/properties.jsonl")]
    hooks = subprocess.run(["git", "-C", "/repo", "log", "--format=%H %s"], capture_output=True, text=True).stdout.splitlines()
    hook_commits = [l.split()[0] for l in hooks if "verif hook" in l]
    checks, na = [], []
    for p in props:
        pid = p["id"]
        if pid in CLAIMED:
            tech, text, note, ref = CLAIMED[pid]
            checks.append({
                "property_id": pid,
                "quick_cmd": f"python3 bin/vcheck.py {pid} quick",
                "thorough_cmd": f"python3 bin/vcheck.py {pid} thorough",
                "evidence_file": f"/verif/evidence/{pid}.json",
                "replay_cmd_template": "python3 bin/vcheck.py replay {path}",
                "engine": "lean4-proof+correspondence",
                "level_claimed": {"category": "proof", "text": text, "design_ref": ref},
                "level_note": note,
                "technique": tech,
            })
        else:
            na.append({"property_id": pid, "reason": NOT_YET.get(pid, "check not built yet in this round; the Lean-proof technique applies (see DESIGN.md §6), nothing is claimed until the check exists and passes on the unchanged tree")})
    m = {
        "version": 1,
        "setup_cmd": "bash bin/setup.sh",
        "hooks": {
            "guard": "verif",
            "enable": "go build -tags verif (the harness module /verif/harness replaces github.com/diiyw/nodis => /repo); the deterministic-clock harness additionally uses -tags faketime with CGO_ENABLED=0",
            "baseline_off_cmd": "cd /repo && GOFLAGS=-mod=mod GOPROXY=off GOSUMDB=off GOTOOLCHAIN=local go test -json -vet=off -count=1 -timeout 25m ./...",
            "source_commits": hook_commits,
            "add_only": True,
        },
        "engines": [{
            "name": "lean4-proof+correspondence", "path": "/verif/lean",
            "serves_properties": sorted(CLAIMED),
            "kind_free_text": "Lean 4 theorems about a hand-written executable model of nodis (lake project, core-only model, compiled driver); the model is tied to /repo on every run by differential execution against the real code through a Go harness (build tag verif); protocol models (locking, blocking pops) are tied by replaying the step traces the real code reports through its verifTrace hook; the change feed and crash recovery additionally by closed-loop oracles on the implementation alone",
        }],
        "checks": checks,
        "not_applicable": na,
        "notes": "All checks: python3 bin/vcheck.py <ID> quick|thorough; exit 1 + 'VIOLATION property=<id> replay=<path>' on a violation. Known findings: /verif/known_findings.json (read-only at run time).",
    }
    json.dump(m, open("/verif/MANIFEST.json", "w"), indent=1)
    print(f"{len(checks)} checks claimed, {len(na)} not claimed")

if __name__ == "__main__":
    main()
