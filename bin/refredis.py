#!/usr/bin/env python3
"""A second, independent oracle for the command layer (C01-C04): a small reference implementation of the documented
Redis semantics, written from the Redis command documentation and NOT from nodis or from the Lean model, run against the
real code over the network protocol on single-client random streams.

Why: the Lean model is bug-compatible by construction; where model and code agree on a behaviour that the property's text
forbids, and no theorem speaks about that reply, the correspondence is silent (this is how "ZSCORE of a missing key replies 0"
and "HGET of an empty value replies null" survived). The reference below knows nothing about the code. It is a SEARCH for
failing inputs (never a proof): a divergence is either a genuine defect, a known finding (filtered by `known`), or a
mistake of this reference.

Values are bytes; replies are rendered in the harness's canonical token form (`$hex`, `$-` empty, `$N` null bulk, `*N` null
array, `:n`, `*n`, `+OK`, `-` for any error)."""
import random

INT64_MIN, INT64_MAX = -2 ** 63, 2 ** 63 - 1


class Err(Exception):
    pass


def hx(b):
    return "-" if b == b"" else b.hex()


def bulk(b):
    return "$N" if b is None else "$" + hx(b)


def arr(items):
    return " ".join(["*%d" % len(items)] + [bulk(i) if not isinstance(i, str) else i for i in items])


def fmt_score(f):
    if f == float("inf"):
        return b"+Inf"
    if f == float("-inf"):
        return b"-Inf"
    if f == int(f) and abs(f) < 2 ** 53:
        return (b"-0" if (f == 0 and str(f).startswith("-")) else str(int(f)).encode())
    return repr(f).encode()


def parse_int(b):
    try:
        s = b.decode()
    except Exception:
        raise Err()
    if s == "" or s != s.strip() or (s.lstrip("+-") == "") or not s.lstrip("+-").isdigit() or s[0] == "+" and False:
        raise Err()
    if not (s[0].isdigit() or s[0] in "+-"):
        raise Err()
    v = int(s)
    if not INT64_MIN <= v <= INT64_MAX:
        raise Err()
    return v


def parse_score(b):
    s = b.decode().lower()
    if s in ("inf", "+inf", "infinity", "+infinity"):
        return float("inf")
    if s in ("-inf", "-infinity"):
        return float("-inf")
    try:
        return float(int(s))
    except Exception:
        raise Err()


def parse_bound(b):
    ex = b.startswith(b"(")
    return parse_score(b[1:] if ex else b), ex


# Deviations of nodis from the documented semantics that are recorded as known findings (known_findings.json): with
# quirks on, the reference follows nodis there (so that the run can go on and find OTHER deviations); each is keyed by the
# finding's id. With quirks off the reference is plain Redis.
QUIRKS = {
    "A-49": "INCR / DECR / INCRBY / DECRBY treat a string holding the empty value as 0 (Redis: not an integer)",
    "A-36": "HINCRBY wraps around at the int64 bounds (Redis: overflow error)",
    "A-50": "RENAMENX replies 0 when the source does not exist (Redis: error 'no such key')",
    "A-01b": "GETRANGE with stop < -len yields the empty string (Redis clamps to the first byte)",
    "A-51": "LPOP / RPOP with a count of 0 reply null (Redis: an empty array)",
}


class Ref:
    def __init__(self, quirks=True):
        self.q = quirks
        self.d = {}      # key -> ("s", bytes) | ("l", [bytes]) | ("h", {f: v}) | ("t", set) | ("z", {m: score})

    # ---- helpers
    def get(self, k, t):
        v = self.d.get(k)
        if v is None:
            return None
        if v[0] != t:
            raise Err()
        return v[1]

    def put(self, k, t, val):
        if (t != "s") and len(val) == 0:
            self.d.pop(k, None)
        else:
            self.d[k] = (t, val)

    def zsorted(self, z):
        return sorted(z.items(), key=lambda mv: (mv[1], mv[0]))

    # ---- dispatch: returns the canonical reply string
    def run(self, a):
        try:
            f = getattr(self, "c_" + a[0].decode().lower())
        except AttributeError:
            return None
        try:
            return f(*a[1:])
        except Err:
            return "-"

    # ---- keyspace
    def c_del(self, *ks):
        n = 0
        for k in ks:
            if k in self.d:
                del self.d[k]; n += 1
        return ":%d" % n

    def c_exists(self, *ks):
        return ":%d" % sum(1 for k in ks if k in self.d)

    def c_type(self, k):
        names = {"s": "string", "l": "list", "h": "hash", "t": "set", "z": "zset"}
        return "+" + (names[self.d[k][0]] if k in self.d else "none")

    def c_dbsize(self):
        return ":%d" % len(self.d)

    def c_rename(self, a, b):
        if a not in self.d:
            raise Err()
        v = self.d.pop(a)
        self.d[b] = v
        return "+OK"

    def c_renamenx(self, a, b):
        if a not in self.d:
            if self.q:
                return ":0"     # A-50
            raise Err()
        if b in self.d:
            return ":0"
        self.d[b] = self.d.pop(a)
        return ":1"

    # ---- strings
    def c_set(self, k, v):
        self.d[k] = ("s", v)
        return "+OK"

    def c_get(self, k):
        return bulk(self.get(k, "s"))

    def c_getset(self, k, v):
        old = self.get(k, "s")
        self.d[k] = ("s", v)
        return bulk(old)

    def c_setnx(self, k, v):
        if k in self.d:
            return ":0"
        self.d[k] = ("s", v)
        return ":1"

    def c_append(self, k, v):
        cur = self.get(k, "s") or b""
        self.d[k] = ("s", cur + v)
        return ":%d" % len(cur + v)

    def c_strlen(self, k):
        return ":%d" % len(self.get(k, "s") or b"")

    def c_getrange(self, k, a, b):
        s = self.get(k, "s") or b""
        a, b = parse_int(a), parse_int(b)
        n = len(s)
        if a < 0: a = max(n + a, 0)
        if self.q and b < -n:
            return "$-"         # A-01b
        if b < 0: b = max(n + b, 0)
        if b >= n: b = n - 1
        if n == 0 or a > b:
            return "$-"
        return bulk(s[a:b + 1])

    def c_incrby(self, k, d, sign=1):
        cur = self.get(k, "s")
        if self.q and cur == b"":
            cur = b"0"          # A-49
        v = parse_int(cur) if cur is not None else 0
        d = parse_int(d) * sign
        if not INT64_MIN <= v + d <= INT64_MAX:
            raise Err()
        self.d[k] = ("s", str(v + d).encode())
        return ":%d" % (v + d)

    def c_incr(self, k): return self.c_incrby(k, b"1")
    def c_decr(self, k): return self.c_incrby(k, b"1", -1)
    def c_decrby(self, k, d): return self.c_incrby(k, d, -1)

    def c_mset(self, *kv):
        if len(kv) % 2 or not kv:
            raise Err()
        for i in range(0, len(kv), 2):
            self.d[kv[i]] = ("s", kv[i + 1])
        return "+OK"

    def c_mget(self, *ks):
        out = []
        for k in ks:
            v = self.d.get(k)
            out.append(v[1] if v and v[0] == "s" else None)
        return arr(out)

    # ---- lists
    def c_rpush(self, k, *vs, left=False, must_exist=False):
        l = self.get(k, "l")
        if l is None:
            if must_exist:
                return ":0"
            l = []
        l = list(l)
        for v in vs:
            l.insert(0, v) if left else l.append(v)
        self.put(k, "l", l)
        return ":%d" % len(l)

    def c_lpush(self, k, *vs): return self.c_rpush(k, *vs, left=True)
    def c_rpushx(self, k, *vs): return self.c_rpush(k, *vs, must_exist=True)
    def c_lpushx(self, k, *vs): return self.c_rpush(k, *vs, left=True, must_exist=True)

    def c_lpop(self, k, cnt=None, right=False):
        l = self.get(k, "l")
        if cnt is None:
            if not l:
                return "$N"
            l = list(l)
            v = l.pop() if right else l.pop(0)
            self.put(k, "l", l)
            return bulk(v)
        c = parse_int(cnt)
        if c < 0:
            raise Err()
        if l is None:
            return "$N"         # nodis replies a null bulk, Redis a null array: both are "nothing" (canon maps *N to $N)
        l = list(l)
        out = []
        while l and len(out) < c:
            out.append(l.pop() if right else l.pop(0))
        self.put(k, "l", l)
        if self.q and c == 0:
            return "$N"             # A-51
        return arr(out)

    def c_rpop(self, k, cnt=None): return self.c_lpop(k, cnt, right=True)

    def c_llen(self, k):
        return ":%d" % len(self.get(k, "l") or [])

    def c_lindex(self, k, i):
        l = self.get(k, "l") or []
        i = parse_int(i)
        if i < 0: i += len(l)
        return bulk(l[i]) if 0 <= i < len(l) else "$N"

    def _range(self, n, a, b):
        if a < 0: a = max(n + a, 0)
        if b < 0: b = n + b
        b = min(b, n - 1)
        return (a, b) if a <= b and a < n else None

    def c_lrange(self, k, a, b):
        l = self.get(k, "l") or []
        r = self._range(len(l), parse_int(a), parse_int(b))
        return arr(l[r[0]:r[1] + 1] if r else [])

    def c_lset(self, k, i, v):
        l = self.get(k, "l")
        if l is None:
            raise Err()
        i = parse_int(i)
        if i < 0: i += len(l)
        if not 0 <= i < len(l):
            raise Err()
        l = list(l); l[i] = v
        self.put(k, "l", l)
        return "+OK"

    def c_linsert(self, k, where, pivot, v):
        w = where.upper()
        if w not in (b"BEFORE", b"AFTER"):
            raise Err()
        l = self.get(k, "l")
        if l is None:
            return ":0"
        if pivot not in l:
            return ":-1"
        l = list(l)
        i = l.index(pivot)
        l.insert(i if w == b"BEFORE" else i + 1, v)
        self.put(k, "l", l)
        return ":%d" % len(l)

    def c_lrem(self, k, cnt, v):
        l = self.get(k, "l") or []
        c = parse_int(cnt)
        l = list(l)
        n = 0
        if c >= 0:
            out = []
            for x in l:
                if x == v and (c == 0 or n < c):
                    n += 1
                else:
                    out.append(x)
        else:
            out = []
            for x in reversed(l):
                if x == v and n < -c:
                    n += 1
                else:
                    out.append(x)
            out.reverse()
        self.put(k, "l", out)
        return ":%d" % n

    def c_ltrim(self, k, a, b):
        l = self.get(k, "l")
        if l is None:
            return "+OK"
        r = self._range(len(l), parse_int(a), parse_int(b))
        self.put(k, "l", list(l[r[0]:r[1] + 1]) if r else [])
        return "+OK"

    def c_rpoplpush(self, a, b):
        src = self.get(a, "l")
        self.get(b, "l")
        if not src:
            return "$N"
        src = list(src)
        v = src.pop()
        self.put(a, "l", src)
        dst = list(self.get(b, "l") or [])
        dst.insert(0, v)
        self.put(b, "l", dst)
        return bulk(v)

    # ---- hashes
    def c_hset(self, k, *fv):
        if len(fv) % 2 or not fv:
            raise Err()
        h = dict(self.get(k, "h") or {})
        n = 0
        for i in range(0, len(fv), 2):
            n += fv[i] not in h
            h[fv[i]] = fv[i + 1]
        self.put(k, "h", h)
        return ":%d" % n

    def c_hsetnx(self, k, f, v):
        h = dict(self.get(k, "h") or {})
        if f in h:
            return ":0"
        h[f] = v
        self.put(k, "h", h)
        return ":1"

    def c_hget(self, k, f):
        return bulk((self.get(k, "h") or {}).get(f))

    def c_hmget(self, k, *fs):
        h = self.get(k, "h") or {}
        return arr([h.get(f) for f in fs])

    def c_hdel(self, k, *fs):
        h = dict(self.get(k, "h") or {})
        n = 0
        for f in fs:
            if f in h:
                del h[f]; n += 1
        self.put(k, "h", h)
        return ":%d" % n

    def c_hlen(self, k): return ":%d" % len(self.get(k, "h") or {})
    def c_hexists(self, k, f): return ":%d" % (f in (self.get(k, "h") or {}))
    def c_hstrlen(self, k, f): return ":%d" % len((self.get(k, "h") or {}).get(f, b""))

    def c_hgetall(self, k):
        h = self.get(k, "h") or {}
        pairs = sorted(h.items())
        return " ".join(["*%d" % (2 * len(pairs))] + [bulk(x) for p in pairs for x in p])

    def c_hkeys(self, k): return arr(sorted((self.get(k, "h") or {}).keys()))
    def c_hvals(self, k): return arr(sorted((self.get(k, "h") or {}).values()))

    def c_hincrby(self, k, f, d):
        h = dict(self.get(k, "h") or {})
        d = parse_int(d)
        v = parse_int(h[f]) if f in h else 0
        if not INT64_MIN <= v + d <= INT64_MAX:
            if not self.q:
                raise Err()
            v = (v + d + 2 ** 63) % 2 ** 64 - 2 ** 63 - d      # A-36: wraps
        h[f] = str(v + d).encode()
        self.put(k, "h", h)
        return ":%d" % (v + d)

    # ---- sets
    def c_sadd(self, k, *ms):
        if not ms:
            raise Err()
        s = set(self.get(k, "t") or ())
        n = len(set(ms) - s)
        self.put(k, "t", s | set(ms))
        return ":%d" % n

    def c_srem(self, k, *ms):
        if not ms:
            raise Err()
        s = set(self.get(k, "t") or ())
        n = len(set(ms) & s)
        self.put(k, "t", s - set(ms))
        return ":%d" % n

    def c_scard(self, k): return ":%d" % len(self.get(k, "t") or ())
    def c_sismember(self, k, m): return ":%d" % (m in (self.get(k, "t") or ()))
    def c_smembers(self, k): return arr(sorted(self.get(k, "t") or ()))

    def _setop(self, op, ks):
        sets = [set(self.get(k, "t") or ()) for k in ks]
        r = sets[0]
        for s in sets[1:]:
            r = r & s if op == "i" else (r | s if op == "u" else r - s)
        return r

    def c_sinter(self, *ks): return arr(sorted(self._setop("i", ks)))
    def c_sunion(self, *ks): return arr(sorted(self._setop("u", ks)))
    def c_sdiff(self, *ks): return arr(sorted(self._setop("d", ks)))

    def _store(self, op, dst, ks):
        r = self._setop(op, ks)
        self.d.pop(dst, None)
        self.put(dst, "t", r)
        return ":%d" % len(r)

    def c_sinterstore(self, dst, *ks): return self._store("i", dst, ks)
    def c_sunionstore(self, dst, *ks): return self._store("u", dst, ks)
    def c_sdiffstore(self, dst, *ks): return self._store("d", dst, ks)

    def c_smove(self, a, b, m):
        src = self.get(a, "t")
        dst = self.get(b, "t")
        if not src or m not in src:
            return ":0"
        src = set(src); src.discard(m)
        self.put(a, "t", src)
        dst = set(self.get(b, "t") or ()) ; dst.add(m)
        self.put(b, "t", dst)
        return ":1"

    # ---- sorted sets
    def c_zadd(self, k, *a):
        opts = set()
        a = list(a)
        while a and a[0].upper() in (b"NX", b"XX", b"GT", b"LT", b"CH"):
            opts.add(a.pop(0).upper())
        if not a or len(a) % 2:
            raise Err()
        pairs = [(parse_score(a[i]), a[i + 1]) for i in range(0, len(a), 2)]
        z = dict(self.get(k, "z") or {})
        added = changed = 0
        if (b"NX" in opts and opts & {b"XX", b"GT", b"LT"}) or (b"GT" in opts and b"LT" in opts):
            raise Err()
        for sc, m in pairs:
            if m in z:
                if b"NX" in opts: continue
                if b"GT" in opts and not sc > z[m]: continue
                if b"LT" in opts and not sc < z[m]: continue
                if z[m] != sc:
                    changed += 1
                z[m] = sc
            else:
                if b"XX" in opts: continue
                z[m] = sc; added += 1
        self.put(k, "z", z)
        return ":%d" % (added + changed if b"CH" in opts else added)

    def c_zcard(self, k): return ":%d" % len(self.get(k, "z") or {})

    def c_zscore(self, k, m):
        z = self.get(k, "z") or {}
        return bulk(fmt_score(z[m])) if m in z else "$N"

    def c_zrank(self, k, m, rev=False):
        z = self.get(k, "z") or {}
        if m not in z:
            return "$N"
        order = [x for x, _ in self.zsorted(z)]
        if rev: order.reverse()
        return ":%d" % order.index(m)

    def c_zrevrank(self, k, m): return self.c_zrank(k, m, True)

    def c_zincrby(self, k, d, m):
        z = dict(self.get(k, "z") or {})
        d = parse_score(d)
        v = z.get(m, 0.0) + d
        if v != v:
            raise Err()
        z[m] = v
        self.put(k, "z", z)
        return bulk(fmt_score(v))

    def c_zrem(self, k, *ms):
        z = dict(self.get(k, "z") or {})
        n = 0
        for m in ms:
            if m in z:
                del z[m]; n += 1
        self.put(k, "z", z)
        return ":%d" % n

    def _byscore(self, k, lo, hi):
        z = self.get(k, "z") or {}
        (a, ax), (b, bx) = parse_bound(lo), parse_bound(hi)
        return [(m, s) for m, s in self.zsorted(z) if (s > a if ax else s >= a) and (s < b if bx else s <= b)]

    def c_zcount(self, k, lo, hi): return ":%d" % len(self._byscore(k, lo, hi))

    def c_zrangebyscore(self, k, lo, hi, *opt, rev=False):
        items = self._byscore(k, lo, hi)
        if rev: items.reverse()
        opt = list(opt)
        ws = False
        while opt:
            o = opt.pop(0).upper()
            if o == b"WITHSCORES":
                ws = True
            elif o == b"LIMIT":
                off, cnt = parse_int(opt.pop(0)), parse_int(opt.pop(0))
                if off < 0:
                    items = []
                else:
                    items = items[off:] if cnt < 0 else items[off:off + cnt]
            else:
                raise Err()
        out = []
        for m, s in items:
            out.append(m)
            if ws: out.append(fmt_score(s))
        return arr(out)

    def c_zrevrangebyscore(self, k, hi, lo, *opt): return self.c_zrangebyscore(k, lo, hi, *opt, rev=True)   # ZREVRANGEBYSCORE key max min

    def c_zremrangebyscore(self, k, lo, hi):
        z = dict(self.get(k, "z") or {})
        gone = self._byscore(k, lo, hi)
        for m, _ in gone:
            del z[m]
        self.put(k, "z", z)
        return ":%d" % len(gone)

    def c_zremrangebyrank(self, k, a, b):
        z = dict(self.get(k, "z") or {})
        order = [m for m, _ in self.zsorted(z)]
        r = self._range(len(order), parse_int(a), parse_int(b))
        gone = order[r[0]:r[1] + 1] if r else []
        for m in gone:
            del z[m]
        self.put(k, "z", z)
        return ":%d" % len(gone)


SORTED_REPLY = {"SMEMBERS", "SINTER", "SUNION", "SDIFF", "HKEYS", "HVALS"}


def canon(cmd, reply):
    """order-insensitive replies are sorted; every error is '-'"""
    if reply.startswith("-"):
        return "-"
    if reply.startswith("+") and " " not in reply:
        try:
            reply = "+" + bytes.fromhex(reply[1:]).decode()      # the harness prints status text in hex
        except ValueError:
            pass
    if reply == "*N":
        reply = "$N"
    name = cmd[0].decode().upper()
    t = reply.split(" ")
    if name in SORTED_REPLY and t[0].startswith("*") and t[0] != "*N":
        return " ".join([t[0]] + sorted(t[1:]))
    if name == "HGETALL" and t[0].startswith("*") and t[0] != "*N":
        pairs = sorted(zip(t[1::2], t[2::2]))
        return " ".join([t[0]] + [x for p in pairs for x in p])
    return reply


def gen(rng, n, fams="sslhtzzk"):
    """a random single-client stream over typed key pools (two keys per type); fams: one letter per family, repeated = weight"""
    vals = [b"", b"a", b"b", b"ab", b"0", b"1", b"-1", b"10", b"007", b"9223372036854775807", b"-9223372036854775808", b"x" * 40, b"\x00\xff", b"a b", b"12a"]
    ints = [b"0", b"1", b"-1", b"2", b"5", b"-3", b"100", b"9223372036854775807", b"-9223372036854775808"]
    idx = [b"0", b"1", b"-1", b"2", b"-2", b"3", b"-3", b"5", b"-5", b"100", b"-100"]
    scores = [b"0", b"1", b"-1", b"2", b"3", b"5", b"10", b"-inf", b"+inf", b"inf"]
    bounds = scores + [b"(0", b"(1", b"(2", b"(3", b"(5", b"(-inf", b"(+inf"]
    mem = [b"a", b"b", b"c", b"d", b"", b"e"]
    c = rng.choice
    K = lambda t: (t + c("12")).encode()        # typed pools: what nodis does with a key of another type is covered elsewhere (A-08b)
    out = []
    for _ in range(n):
        fam = c(fams)
        if fam == "s":
            k = K("s")
            cmd = c([lambda: [b"SET", k, c(vals)], lambda: [b"GET", k], lambda: [b"GETSET", k, c(vals)], lambda: [b"SETNX", k, c(vals)], lambda: [b"APPEND", k, c(vals)],
                     lambda: [b"STRLEN", k], lambda: [b"GETRANGE", k, c(idx), c(idx)], lambda: [b"INCR", k], lambda: [b"DECR", k], lambda: [b"INCRBY", k, c(ints)],
                     lambda: [b"DECRBY", k, c(ints[:7])], lambda: [b"MSET", K("s"), c(vals), K("s"), c(vals)], lambda: [b"MGET", K("s"), K("s"), b"nokey"]])()
        elif fam == "l":
            k = K("l")
            cmd = c([lambda: [b"RPUSH", k, c(vals), c(vals)], lambda: [b"LPUSH", k, c(vals)], lambda: [b"RPUSH", k, c(vals)], lambda: [b"LPUSHX", k, c(vals)], lambda: [b"RPUSHX", k, c(vals)],
                     lambda: [b"LPOP", k], lambda: [b"RPOP", k], lambda: [b"LPOP", k, c([b"0", b"1", b"2", b"10"])], lambda: [b"RPOP", k, c([b"0", b"1", b"3"])], lambda: [b"LLEN", k],
                     lambda: [b"LINDEX", k, c(idx)], lambda: [b"LRANGE", k, c(idx), c(idx)], lambda: [b"LSET", k, c(idx), c(vals)],
                     lambda: [b"LINSERT", k, c([b"BEFORE", b"AFTER", b"before", b"After"]), c(vals), c(vals)], lambda: [b"LREM", k, c([b"0", b"1", b"-1", b"2", b"-2", b"100"]), c(vals)],
                     lambda: [b"LTRIM", k, c(idx), c(idx)], lambda: [b"RPOPLPUSH", k, K("l")]])()
        elif fam == "h":
            k = K("h")
            cmd = c([lambda: [b"HSET", k, c(mem), c(vals)], lambda: [b"HSET", k, c(mem), c(vals), c(mem), c(vals)], lambda: [b"HSETNX", k, c(mem), c(vals)], lambda: [b"HGET", k, c(mem)],
                     lambda: [b"HMGET", k, c(mem), c(mem), b"zz"], lambda: [b"HDEL", k, c(mem)], lambda: [b"HDEL", k, c(mem), c(mem)], lambda: [b"HLEN", k], lambda: [b"HEXISTS", k, c(mem)],
                     lambda: [b"HSTRLEN", k, c(mem)], lambda: [b"HGETALL", k], lambda: [b"HKEYS", k], lambda: [b"HVALS", k], lambda: [b"HINCRBY", k, c(mem), c(ints)]])()
        elif fam == "t":
            k = K("t")
            cmd = c([lambda: [b"SADD", k, c(mem)], lambda: [b"SADD", k, c(mem), c(mem)], lambda: [b"SREM", k, c(mem)], lambda: [b"SREM", k, c(mem), c(mem)], lambda: [b"SCARD", k],
                     lambda: [b"SISMEMBER", k, c(mem)], lambda: [b"SMEMBERS", k], lambda: [b"SINTER", K("t"), K("t")], lambda: [b"SUNION", K("t"), K("t"), b"nokey"], lambda: [b"SDIFF", K("t"), K("t")],
                     lambda: [b"SINTERSTORE", K("t"), K("t"), K("t")], lambda: [b"SUNIONSTORE", K("t"), K("t"), K("t")], lambda: [b"SDIFFSTORE", K("t"), K("t"), K("t")],
                     lambda: [b"SMOVE", K("t"), K("t"), c(mem)]])()
        elif fam == "z":
            k = K("z")
            cmd = c([lambda: [b"ZADD", k, c(scores), c(mem)], lambda: [b"ZADD", k, c(scores), c(mem), c(scores), c(mem)], lambda: [b"ZADD", k, c([b"NX", b"XX", b"GT", b"LT", b"CH"]), c(scores), c(mem)],
                     lambda: [b"ZADD", k] + c([[b"NX"], [b"XX"], [b"GT"], [b"LT"], [b"CH"], [b"NX", b"CH"], [b"XX", b"CH"], [b"XX", b"GT"], [b"XX", b"LT"], [b"GT", b"CH"], [b"LT", b"CH"], [b"XX", b"GT", b"CH"],
                                               [b"NX", b"XX"], [b"GT", b"LT"], [b"NX", b"GT"]]) + [x for _ in range(c([2, 2, 3])) for x in (c(scores), c(mem))],
                     lambda: [b"ZCARD", k], lambda: [b"ZSCORE", k, c(mem)], lambda: [b"ZRANK", k, c(mem)], lambda: [b"ZREVRANK", k, c(mem)], lambda: [b"ZINCRBY", k, c(scores[:7]), c(mem)],
                     lambda: [b"ZREM", k, c(mem)], lambda: [b"ZREM", k, c(mem), c(mem)], lambda: [b"ZCOUNT", k, c(bounds), c(bounds)], lambda: [b"ZRANGEBYSCORE", k, c(bounds), c(bounds)],
                     lambda: [b"ZRANGEBYSCORE", k, c(bounds), c(bounds), b"WITHSCORES"], lambda: [b"ZRANGEBYSCORE", k, c(bounds), c(bounds), b"LIMIT", c([b"0", b"1", b"2", b"-1"]), c([b"0", b"1", b"2", b"-1", b"10"])],
                     lambda: [b"ZREVRANGEBYSCORE", k, c(bounds), c(bounds)], lambda: [b"ZREVRANGEBYSCORE", k, c(bounds), c(bounds), b"WITHSCORES", b"LIMIT", c([b"0", b"1"]), c([b"1", b"2", b"-1"])],
                     lambda: [b"ZREMRANGEBYSCORE", k, c(bounds), c(bounds)], lambda: [b"ZREMRANGEBYRANK", k, c(idx), c(idx)]])()
        else:
            k = K(c("slhtz"))
            t = c("slhtz")
            k = K(t)
            cmd = c([lambda: [b"DEL", k], lambda: [b"DEL", k, K(c("slhtz"))], lambda: [b"EXISTS", k, K(c("slhtz")), b"nokey"], lambda: [b"TYPE", k], lambda: [b"DBSIZE"],
                     lambda: [b"RENAME", k, K(t)], lambda: [b"RENAMENX", k, K(t)]])()
        out.append(cmd)
    return out
