"""RESP generators for the GEO family (GEOADD, GEOHASH, GEOPOS, GEODIST, GEORADIUS, GEORADIUSBYMEMBER) mixed with
sorted-set commands on the same keys, and for the server commands CLIENT / CONFIG / INFO / SAVE.

FAMILIES = {"geo": …, "srv": …}; each returns one `resp <conn> <hex…>` line.

Coordinates: decimal fractions (parsed by the model's correctly rounded decimal reader), integers, exponents, the
limits ±180 / ±85.05112878 exactly, one unit in the last place inside and outside them, the poles (±90: rejected by
Encode, stored with score 0 - FINDINGS.md), equal points, far outside, non-numeric text. A longitude of exactly 180
(and 179.99999999999997, whose sum with 180 rounds to 360) gives a hash of 54 bits whose float64 is beyond the integers the float-text model prints: such points only go to the key
`gx`, which is never read with its scores.
The relational commands (GEOPOS, GEODIST, GEORADIUS*) are not sent on the transaction connection: their reply
cannot be predicted at EXEC time.
"""
from gen_api import hx, KEYS, ALLKEYS

GKEYS = [b"g1", b"g2"]
GX = b"gx"
LONS = [b"13.361389", b"15.087269", b"0", b"0.0001", b"-0.0001", b"1", b"-1", b"2.5", b"-122.4194", b"139.6917", b"179.99999", b"-179.99999",
        b"-180", b"-180.0", b"179.9999999999999", b"1e1", b"1.5e2", b"-1E-3", b"0.1", b"100", b"45.", b".5", b"+13.361389", b"007.5"]
LATS = [b"38.115556", b"37.502669", b"0", b"0.0001", b"-0.0001", b"1", b"-1", b"2.5", b"37.7749", b"35.6895", b"85.05112877", b"-85.05112877",
        b"85.05112878", b"-85.05112878", b"85.05112877999999", b"-85.05112877999999", b"60", b"-60", b"66.5", b"80.5", b"1e1", b"8.5e1", b"45.", b".5"]
OUTSIDE = [b"180.00000000000003", b"-180.00000000000003", b"85.05112878000001", b"-85.05112878000001", b"90", b"-90", b"200", b"-200", b"1e300", b"-1e300"]
BAD = [b"abc", b"", b"(", b"1x", b"nan", b"--1", b"1e", b"1.2.3", b"1e99999", b"NX", b"XX", b"CH", b"inf", b"-inf"]
GMEMBERS = [b"a", b"b", b"c", b"d", b"Palermo", b"Catania", b"", b"\x00\xffm", b"NX", b"km"]
RADII = [b"1", b"100", b"200", b"500", b"0", b"-1", b"0.5", b"1e7", b"5000", b"20000", b"abc", b""]
UNITS = [b"m", b"km", b"mi", b"ft", b"KM", b"Mi", b"parsec"]


def txconn(g):
    return g.conns[-1] if len(g.conns) > 1 else None


def gkey(g, other=0.2):
    r = g.r
    x = r.random()
    if x < other:
        return hx(r.choice(KEYS["zset"] + [b"zi", b"zd"] + ALLKEYS + [b"nokey"]))
    return hx(r.choice(GKEYS))


def coord(g, pool):
    r = g.r
    x = r.random()
    if x < 0.86:
        return r.choice(pool)
    if x < 0.94:
        return r.choice(OUTSIDE)
    return r.choice(BAD)


def line(conn, name, toks):
    return f"resp {conn} " + " ".join([hx(name.encode())] + list(toks))


def fuzz(g, toks, keep=1):
    """arity / operand fuzz (list of hex tokens after the name)"""
    r = g.r
    x = r.random()
    if x < 0.84:
        return toks
    if x < 0.90:
        return toks[:r.randrange(0, len(toks) + 1)]
    if x < 0.94:
        return toks + [hx(r.choice(BAD + UNITS + [b"WITHDIST", b"COUNT", b"ASC"])) for _ in range(r.randrange(1, 3))]
    if x < 0.98 and len(toks) > keep:
        i = r.randrange(keep, len(toks))
        return toks[:i] + [hx(r.choice(BAD + [b"0", b"1", b"WITHCOORD", b"COUNT", b"ANY"]))] + toks[i + 1:]
    return []


def geoadd(g, conn, key=None):
    r = g.r
    # GEOADD goes to the geo keys and, now and then, to keys of another type / odd keys - not to the operands of
    # ZUNIONSTORE / ZINTERSTORE (z1..z3, zd): weighted sums of 52-bit scores leave the integers the float-text model
    # prints, and the rest of the stream would be ignored. The mixing with sorted-set commands happens on g1 / g2.
    key = key or (hx(r.choice([k for k in ALLKEYS if k not in KEYS["zset"]] + [b"nokey"])) if r.random() < 0.1 else hx(r.choice(GKEYS)))
    toks = [key]
    x = r.random()
    if x < 0.06:
        toks.append(g.word(r.choice(["NX", "XX", "CH"])))
    elif x < 0.09:
        toks += [hx(b"1"), g.word(r.choice(["NX", "XX"]))]
    elif x < 0.11:
        toks += [g.word(r.choice(["NX", "XX"])), g.word("CH")]
    for _ in range(r.choice([1, 1, 1, 2, 3])):
        toks += [hx(coord(g, LONS)), hx(coord(g, LATS)), hx(r.choice(GMEMBERS))]
    return line(conn, "GEOADD", fuzz(g, toks))


def geoadd_edge(g, conn):
    """the limits themselves: longitude 180 gives a 54-bit hash (only on gx)"""
    r = g.r
    toks = [hx(GX)]
    for _ in range(r.choice([1, 2])):
        toks += [hx(r.choice([b"180", b"180.0", b"-180", b"179.99999999999997", b"1.8e2"])), hx(r.choice(LATS)), hx(r.choice(GMEMBERS))]
    return line(conn, "GEOADD", toks)


def radius_opts(g):
    r = g.r
    o = []
    if r.random() < 0.8:
        o.append(hx(r.choice(UNITS)))
    for w in ("WITHCOORD", "WITHDIST", "WITHHASH"):
        if r.random() < 0.3:
            o.append(g.word(w))
    if r.random() < 0.3:
        o += [g.word("COUNT"), hx(r.choice([b"1", b"2", b"3", b"10", b"0", b"-1", b"abc"]))]
        if r.random() < 0.2:
            o.append(g.word("ANY"))
    elif r.random() < 0.04:
        o.append(g.word("COUNT"))
    if r.random() < 0.3:
        o.append(g.word(r.choice(["ASC", "DESC"])))
    if r.random() < 0.15:
        r.shuffle(o)
    return o


def geo(g, conn):
    r = g.r
    c = r.choice
    relational_ok = conn != txconn(g)
    key = gkey(g)
    m = lambda: hx(c(GMEMBERS))
    writers = [
        lambda: geoadd(g, conn), lambda: geoadd(g, conn), lambda: geoadd(g, conn), lambda: geoadd(g, conn),
        lambda: geoadd_edge(g, conn),
        lambda: line(conn, "ZADD", [hx(c(GKEYS)), hx(c([b"0", b"1", b"-1", b"5", b"100", b"3479099956230698", b"4503599627370495", b"-0"])), m()]),
        lambda: line(conn, "ZREM", [hx(c(GKEYS + [GX])), m()]),
        lambda: line(conn, "ZINCRBY", [hx(c(GKEYS)), hx(c([b"1", b"-1", b"2"])), m()]),
        lambda: line(conn, "DEL", [hx(c(GKEYS + [GX]))]),
    ]
    plain_reads = [
        lambda: line(conn, "GEOHASH", fuzz(g, [key] + [m() for _ in range(c([1, 1, 2, 3]))])),
        lambda: line(conn, "GEOHASH", fuzz(g, [hx(GX)] + [m() for _ in range(c([1, 2]))])),
        lambda: line(conn, "ZSCORE", [hx(c(GKEYS)), m()]),
        lambda: line(conn, "ZRANGE", [hx(c(GKEYS)), hx(b"0"), hx(b"-1")] + ([g.word("WITHSCORES")] if r.random() < 0.6 else [])),
        lambda: line(conn, "ZCARD", [hx(c(GKEYS + [GX]))]),
        lambda: line(conn, "ZRANK", [hx(c(GKEYS)), m()]),
        lambda: line(conn, "ZCOUNT", [hx(c(GKEYS)), hx(b"-inf"), hx(b"+inf")]),
        lambda: line(conn, "TYPE", [hx(c(GKEYS + [GX]))]),
    ]
    relational = [
        lambda: line(conn, "GEOPOS", fuzz(g, [key] + [m() for _ in range(c([1, 1, 2, 3]))])),
        lambda: line(conn, "GEOPOS", fuzz(g, [hx(GX)] + [m() for _ in range(c([1, 2]))])),
        lambda: line(conn, "GEODIST", fuzz(g, [key, m(), m()] + ([hx(c(UNITS))] if r.random() < 0.5 else []))),
        lambda: line(conn, "GEODIST", fuzz(g, [key, m(), m()] + ([hx(c(UNITS))] if r.random() < 0.5 else []))),
        lambda: line(conn, "GEORADIUS", fuzz(g, [key, hx(coord(g, LONS)), hx(coord(g, LATS)), hx(c(RADII))] + radius_opts(g), keep=1)),
        lambda: line(conn, "GEORADIUS", fuzz(g, [key, hx(coord(g, LONS)), hx(coord(g, LATS)), hx(c(RADII))] + radius_opts(g), keep=1)),
        lambda: line(conn, "GEORADIUSBYMEMBER", fuzz(g, [key, m(), hx(c(RADII))] + radius_opts(g), keep=1)),
        lambda: line(conn, "GEORADIUSBYMEMBER", fuzz(g, [key, m(), hx(c(RADII))] + radius_opts(g), keep=1)),
    ]
    x = r.random()
    if x < 0.40:
        return c(writers)()
    if x < 0.62 or not relational_ok:
        return c(plain_reads)()
    return c(relational)()


def srv(g, conn):
    """CLIENT / CONFIG / INFO / SAVE (QUIT closes the connection: scripted cases only)"""
    r = g.r
    c = r.choice
    ops = [
        lambda: ["CLIENT"] + ([g.word(c(["LIST", "SETNAME", "GETNAME", "KILL"]))] if r.random() < 0.9 else []) + ([hx(b"x")] if r.random() < 0.3 else []),
        lambda: ["CONFIG"] + c([[hx(b"GET"), g.word("DATABASES")], [hx(b"GET"), hx(b"maxmemory")], [hx(b"get"), hx(b"databases")], [hx(b"SET"), hx(b"databases")],
                                [hx(b"GET")], [], [hx(b"GET"), hx(b"databases"), hx(b"x")], [hx(b"SET"), hx(b"a"), hx(b"b")]]),
        lambda: ["INFO"] + ([hx(c([b"keyspace", b"server", b"x"]))] if r.random() < 0.3 else []),
        lambda: ["INFO"],
        lambda: ["SAVE"] + ([hx(b"x")] if r.random() < 0.1 else []),
        lambda: ["DBSIZE"],
    ]
    p = c(ops)()
    if conn == txconn(g) and (p[0] == "INFO" or (p[0] == "CLIENT" and len(p) > 1 and bytes.fromhex(p[1]).upper() == b"LIST")):
        # the variable text of INFO / CLIENT LIST is canonicalised per command, not inside EXEC's array
        p = ["SAVE"]
    return f"resp {conn} " + " ".join([hx(p[0].encode())] + p[1:])


FAMILIES = {"geo": geo, "srv": srv}
