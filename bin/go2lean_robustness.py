#!/usr/bin/env python3
"""Robustness experiment of the Go -> Lean translator tie (docs/go2lean.md §6).

For each rewrite: copy the repository (VERIF_REPO or /repo) to a scratch directory, apply the textual edit, translate anew,
elaborate every committed obligation (translated/*.lean) and report which ones still close.
  preserving rewrites: the obligations SHOULD stay closed (a broken one is a known false alarm of the tie);
  slips: at least one obligation MUST break.
usage: go2lean_robustness.py [name ...]        exit 0 iff every slip is caught
"""
import os, shutil, subprocess, sys, tempfile, json

HERE = os.path.dirname(os.path.abspath(__file__))
ROOT = os.path.dirname(HERE)
REPO = os.environ.get("VERIF_REPO") or "/repo"

# (name, kind, file, old, new)
EDITS = [
    ("P1-rename-local", "preserving", "internal/strings/strings.go",
     "\th := uint32(2166136261)\n\tfor i := 0; i < len(key); i++ {\n\t\th *= 16777619\n\t\th ^= uint32(key[i])\n\t}\n\treturn h",
     "\tacc := uint32(2166136261)\n\tfor pos := 0; pos < len(key); pos++ {\n\t\tacc *= 16777619\n\t\tacc ^= uint32(key[pos])\n\t}\n\treturn acc"),
    ("P2-swap-if-else", "preserving", "internal/strings/strings.go",
     "\t\tif 'a' <= vv && vv <= 'z' {\n\t\t\tbuf[i] = uint8(vv - 32)\n\t\t} else {\n\t\t\tbuf[i] = uint8(vv)\n\t\t}",
     "\t\tif !('a' <= vv && vv <= 'z') {\n\t\t\tbuf[i] = uint8(vv)\n\t\t} else {\n\t\t\tbuf[i] = uint8(vv - 32)\n\t\t}"),
    ("P3-indexed-to-range", "preserving", "internal/strings/strings.go",
     "\tfor i := 0; i < len(key); i++ {\n\t\th *= 16777619\n\t\th ^= uint32(key[i])\n\t}",
     "\tfor _, c := range []byte(key) {\n\t\th *= 16777619\n\t\th ^= uint32(c)\n\t}"),
    ("P4-hoist-subexpression", "preserving", "ds/ds.go",
     "\tvar b = make([]byte, binary.MaxVarintLen64+len(k.Name))\n\tn := binary.PutVarint(b, k.Expiration)\n\tcopy(b[n:], k.Name)\n\treturn b[:n+len(k.Name)]",
     "\tl := len(k.Name)\n\tvar b = make([]byte, binary.MaxVarintLen64+l)\n\tn := binary.PutVarint(b, k.Expiration)\n\tcopy(b[n:], k.Name)\n\treturn b[:n+l]"),
    ("P5-reorder-statements", "preserving", "metadata.go",
     "\tm.state = KeyStateNormal\n\tm.count--", "\tm.count--\n\tm.state = KeyStateNormal"),
    ("P6-hoist-in-GetRange", "preserving", "ds/str/str.go",
     "\tif start >= int64(len(s.V)) {\n\t\treturn nil\n\t}\n\tend += 1",
     "\tif start >= bl {\n\t\treturn nil\n\t}\n\tend += 1"),
    # second batch, written after the fallback tactics of the first batch existed and NOT tuned afterwards
    ("P7-negated-condition", "preserving", "ds/ds.go", "\tif n <= 0 {\n\t\treturn nil, ErrCorruptedData", "\tif !(n > 0) {\n\t\treturn nil, ErrCorruptedData"),
    ("P8-range-to-indexed", "preserving", "ds/str/str.go",
     "\tfor _, v := range s.V[start:end] {\n\t\tfor i := 0; i < 8; i++ {",
     "\tw := s.V[start:end]\n\tfor j := 0; j < len(w); j++ {\n\t\tv := w[j]\n\t\tfor i := 0; i < 8; i++ {"),
    ("P9-reorder-statements-2", "preserving", "storage/entry.go", "\tb[0] = e.Type\n\tcopy(b[1:], e.Value)", "\tcopy(b[1:], e.Value)\n\tb[0] = e.Type"),
    ("P10-hoist-subexpression-2", "preserving", "ds/zset/skiplist.go",
     "\treturn maxLevel - int16(bits.Len64(k+1)) + 1", "\tn := bits.Len64(k + 1)\n\treturn maxLevel - int16(n) + 1"),
    ("P11-reorder-statements-3", "preserving", "internal/geohash/helper.go",
     "\tx = (x | x<<s[5]) & b[4]\n\ty = (y | y<<s[5]) & b[4]\n", "\ty = (y | y<<s[5]) & b[4]\n\tx = (x | x<<s[5]) & b[4]\n"),
    ("P12-swap-if-else-2", "preserving", "ds/str/str.go",
     "\tend += 1\n\tif end <= 0 {\n\t\tend += bl\n\t}",
     "\tend += 1\n\tif end > 0 {\n\t} else {\n\t\tend += bl\n\t}"),
    ("P13-rename-local-2", "preserving", "ds/hash/hash.go",
     "\tl, n := binary.Varint(b)\n\tb = b[n:]\n\tkey := string(b[:l])\n\treturn &keyValuePair{\n\t\tkey:   key,\n\t\tvalue: b[l:],",
     "\tklen, used := binary.Varint(b)\n\tb = b[used:]\n\tname := string(b[:klen])\n\treturn &keyValuePair{\n\t\tkey:   name,\n\t\tvalue: b[klen:],"),
    ("S1-off-by-one-bound", "slip", "internal/strings/strings.go", "i < len(key); i++", "i < len(key)-1; i++"),
    ("S2-lt-vs-le", "slip", "ds/str/str.go", "\tend += 1\n\tif end <= 0 {", "\tend += 1\n\tif end < 0 {"),
    ("S3-wrong-constant", "slip", "internal/geohash/helper.go", "0x0F0F0F0F0F0F0F0F", "0x0F0F0F0F0F0F0F0E"),
    ("S4-dropped-wrap", "slip", "internal/geohash/helper.go", "\tvar i uint8 = 0\n", "\tvar i int8 = 0\n"),
    ("S5-swapped-operands", "slip", "ds/str/str.go",
     "func (s *String) getBit(offset int64) int64 {\n\ti := offset / 8\n\tif offset < 0 || len(s.V) == 0 || i > int64(len(s.V))-1 {\n\t\treturn 0\n\t}\n\tby := s.V[i]\n\tbit := byte(1 << (7 - uint(offset%8)))",
     "func (s *String) getBit(offset int64) int64 {\n\ti := offset / 8\n\tif offset < 0 || len(s.V) == 0 || i > int64(len(s.V))-1 {\n\t\treturn 0\n\t}\n\tby := s.V[i]\n\tbit := byte(1 << (uint(offset%8) - 7))"),
    ("S6-wrong-prefix-byte", "slip", "redis/number.go", "func FormatInt64(s string) (int64, error) {\n\tvar i string\n\tif s[0] == '(' {",
     "func FormatInt64(s string) (int64, error) {\n\tvar i string\n\tif s[0] == '[' {"),
    ("S7-state-bit", "slip", "metadata.go", "return m.state&KeyStateNormal == KeyStateNormal", "return m.state&KeyStateModified == KeyStateNormal"),
]


def main():
    want = sys.argv[1:]
    rows = []
    ok = True
    for name, kind, rel, old, new in EDITS:
        if want and name not in want:
            continue
        tmp = tempfile.mkdtemp(prefix="go2lean-rob-")
        try:
            repo = f"{tmp}/repo"
            shutil.copytree(REPO, repo, ignore=shutil.ignore_patterns(".git"))
            p = f"{repo}/{rel}"
            txt = open(p).read()
            if txt.count(old) != 1:
                rows.append((name, kind, "EDIT DOES NOT APPLY", []))
                ok = False
                continue
            open(p, "w").write(txt.replace(old, new))
            # the edited tree must still be Go that compiles
            env = dict(os.environ, GOFLAGS="-mod=mod", GOPROXY="off", GOSUMDB="off", GOTOOLCHAIN="local")
            pkg = "./" + os.path.dirname(rel) if os.path.dirname(rel) else "."
            vet = subprocess.run(["go", "build", pkg], cwd=repo, env=env, capture_output=True, text=True)
            if vet.returncode != 0:
                rows.append((name, kind, "EDITED TREE DOES NOT COMPILE: " + vet.stderr[-200:], []))
                ok = False
                continue
            env2 = dict(env, VERIF_REPO=repo, VERIF_SCRATCH=f"{tmp}/out", VERIF_ROOT=ROOT)
            r = subprocess.run([sys.executable, f"{HERE}/translate_check.py"], env=env2, capture_output=True, text=True)
            broken = [l.split(":")[0].replace("BROKEN ", "") for l in r.stdout.splitlines() if l.startswith("BROKEN")]
            outside = [l.strip() for l in r.stdout.splitlines() if l.strip().startswith("go2lean:")]
            verdict = "all obligations closed" if r.returncode == 0 else f"{len(broken)} broken"
            if outside:
                verdict += " (translator: " + "; ".join(outside)[:160] + ")"
            rows.append((name, kind, verdict, broken))
            if kind == "slip" and r.returncode == 0:
                ok = False
        finally:
            shutil.rmtree(tmp, ignore_errors=True)
        print(f"{rows[-1][0]:28s} {rows[-1][1]:11s} {rows[-1][2]}  {' '.join(rows[-1][3])}", flush=True)
    if not want:
        json.dump([{"name": a, "kind": b, "verdict": c, "broken": d} for a, b, c, d in rows], open(f"{ROOT}/docs/go2lean_robustness.json", "w"), indent=1)
    return 0 if ok else 1


if __name__ == "__main__":
    sys.exit(main())
