package main

import (
	"fmt"
	"io"
	"net"
	"sort"
	"strings"
	"sync"
	"time"

	"github.com/diiyw/nodis/redis"
)

// fragConn delivers exactly the given chunks: a Read never returns bytes of two chunks, and at most
// len(p) bytes of the head chunk; after the last chunk it returns io.EOF.
type fragConn struct {
	mu     sync.Mutex
	chunks [][]byte
	out    []byte
}

func (c *fragConn) Read(p []byte) (int, error) {
	c.mu.Lock()
	defer c.mu.Unlock()
	if len(p) == 0 {
		return 0, nil
	}
	for len(c.chunks) > 0 && len(c.chunks[0]) == 0 {
		c.chunks = c.chunks[1:]
	}
	if len(c.chunks) == 0 {
		return 0, io.EOF
	}
	n := copy(p, c.chunks[0])
	c.chunks[0] = c.chunks[0][n:]
	return n, nil
}
func (c *fragConn) Write(p []byte) (int, error) {
	c.mu.Lock()
	c.out = append(c.out, p...)
	c.mu.Unlock()
	return len(p), nil
}
func (c *fragConn) Close() error                       { return nil }
func (c *fragConn) LocalAddr() net.Addr                { return &net.TCPAddr{} }
func (c *fragConn) RemoteAddr() net.Addr               { return &net.TCPAddr{} }
func (c *fragConn) SetDeadline(t time.Time) error      { return nil }
func (c *fragConn) SetReadDeadline(t time.Time) error  { return nil }
func (c *fragConn) SetWriteDeadline(t time.Time) error { return nil }

func fmtCmd(cmd redis.Command) string {
	parts := []string{"C" + toHex([]byte(cmd.Name))}
	for _, a := range cmd.Args {
		parts = append(parts, showBytes([]byte(a)))
	}
	opts := cmd.VerifOptions()
	var ks []string
	for k, v := range opts {
		ks = append(ks, fmt.Sprintf("%s=%d", k, v))
	}
	sort.Strings(ks)
	return strings.Join(parts, " ") + " {" + strings.Join(ks, ",") + "}"
}

// frag <chunk> <chunk> ...: feed one connection with exactly these read fragments
func fragOp(toks []string) string {
	chunks := mustArgs(toks[1:])
	conn := &fragConn{chunks: chunks}
	var cmds []string
	done := make(chan struct{})
	panicked := ""
	go func() {
		defer close(done)
		defer func() {
			// in the real server nothing recovers here: the whole process dies
			if r := recover(); r != nil {
				panicked = fmt.Sprint(r)
			}
		}()
		redis.VerifServeConn(conn, func(c *redis.Conn, cmd redis.Command) {
			cmds = append(cmds, fmtCmd(cmd))
			c.WriteOK()
		})
	}()
	select {
	case <-done:
	case <-time.After(10 * time.Second):
		return strings.Join(append(cmds, "HANG"), " ; ")
	}
	if panicked != "" {
		return strings.Join(append(cmds, "PANIC"), " ; ")
	}
	// the loop always ends by writing one error line
	out := string(conn.out)
	tail := ""
	if i := strings.LastIndex(out, "-"); i >= 0 {
		tail = strings.TrimSpace(out[i+1:])
	}
	kind := "other(" + tail + ")"
	switch {
	case tail == "EOF":
		kind = "eof"
	case strings.Contains(tail, "expected array length"):
		kind = "expectedArrayLength"
	case strings.Contains(tail, "expected array"):
		kind = "expectedArray"
	case strings.Contains(tail, "expected bulk"):
		kind = "expectedBulk"
	}
	nOK := strings.Count(out, "+OK\r\n")
	return strings.Join(append(cmds, fmt.Sprintf("END %s replies=%d", kind, nOK)), " ; ")
}
