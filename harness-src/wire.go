package main

import (
	"encoding/hex"
	"fmt"
	"os"
	"strconv"
	"strings"
)

// parseArg decodes one protocol token: "-" | hex | r<len>x<hh> | c<len>x<hh>.
func parseArg(s string) ([]byte, error) {
	if s == "-" {
		return []byte{}, nil
	}
	if (s[0] == 'r' || s[0] == 'c') && strings.Contains(s, "x") {
		parts := strings.SplitN(s[1:], "x", 2)
		n, err := strconv.Atoi(parts[0])
		if err != nil {
			return nil, err
		}
		b, err := hex.DecodeString(parts[1])
		if err != nil || len(b) != 1 {
			return nil, fmt.Errorf("bad pattern %q", s)
		}
		out := make([]byte, n)
		for i := range out {
			if s[0] == 'r' {
				out[i] = b[0]
			} else {
				out[i] = byte((int(b[0]) + i%251) % 256)
			}
		}
		return out, nil
	}
	return hex.DecodeString(s)
}

func mustArgs(ts []string) [][]byte {
	out := make([][]byte, len(ts))
	for i, t := range ts {
		b, err := parseArg(t)
		if err != nil {
			panic(fmt.Sprintf("bad token %q: %v", t, err))
		}
		out[i] = b
	}
	return out
}

func fnv64(b []byte) uint64 {
	h := uint64(14695981039346656037)
	for _, x := range b {
		h ^= uint64(x)
		h *= 1099511628211
	}
	return h
}

func toHex(b []byte) string {
	if len(b) == 0 {
		return "-"
	}
	return hex.EncodeToString(b)
}

func showBytes(b []byte) string {
	if len(b) <= 64 {
		return toHex(b)
	}
	return fmt.Sprintf("#%d:%016x", len(b), fnv64(b))
}

func compact(s string) string {
	if os.Getenv("VERIF_NOCOMPACT") != "" {
		return s
	}
	if len(s) <= 400 {
		return s
	}
	return fmt.Sprintf("#%d:%016x", len(s), fnv64([]byte(s)))
}
