package main

import (
	"fmt"
	"math"
	"strconv"
)

// floatOp: the float text table (strconv against Model/FloatDec.lean).
//
//	fmtfloat <16 hex digits>   FormatFloat(x,'f',-1,64) of the bit pattern, and ParseFloat of that text
//	parsefloat <hex text>      ParseFloat(text, 64): bits, or E for any error (syntax or range)
func floatOp(toks []string) string {
	if len(toks) != 2 {
		return "bad-op"
	}
	switch toks[0] {
	case "fmtfloat":
		bits, err := strconv.ParseUint(toks[1], 16, 64)
		if err != nil {
			return "bad-op"
		}
		s := strconv.FormatFloat(math.Float64frombits(bits), 'f', -1, 64)
		back := "E"
		if v, err := strconv.ParseFloat(s, 64); err == nil {
			back = fmt.Sprintf("%016x", math.Float64bits(v))
		}
		return fmt.Sprintf("fmt=%s back=%s", showBytes([]byte(s)), back)
	case "parsefloat":
		b, err := parseArg(toks[1])
		if err != nil {
			return "bad-op"
		}
		v, err := strconv.ParseFloat(string(b), 64)
		if err != nil {
			return "E"
		}
		return fmt.Sprintf("v=%016x fmt=%s", math.Float64bits(v), showBytes([]byte(strconv.FormatFloat(v, 'f', -1, 64))))
	}
	return "bad-op"
}
