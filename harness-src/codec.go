package main

import (
	"fmt"
	"math"
	"sort"
	"strconv"
	"strings"

	"github.com/diiyw/nodis/ds"
	"github.com/diiyw/nodis/ds/hash"
	"github.com/diiyw/nodis/ds/list"
	"github.com/diiyw/nodis/ds/set"
	"github.com/diiyw/nodis/ds/str"
	"github.com/diiyw/nodis/ds/zset"
	"github.com/diiyw/nodis/storage"
)

// dumpVal renders a value canonically (same text as Wire.dumpVal in the Lean driver).
func dumpVal(v ds.Value) string {
	switch x := v.(type) {
	case *str.String:
		return "str:" + showBytes(x.Get())
	case *list.LinkedList:
		items := x.VerifItems()
		parts := make([]string, len(items))
		for i, it := range items {
			parts[i] = showBytes(it)
		}
		s := fmt.Sprintf("list:%d:%s", x.LLen(), strings.Join(parts, ","))
		if err := x.VerifCheck(); err != nil {
			s += " STRUCT-ERROR(" + err.Error() + ")"
		}
		return s
	case *hash.HashMap:
		m := x.HGetAll()
		keys := make([]string, 0, len(m))
		for k := range m {
			keys = append(keys, k)
		}
		sort.Strings(keys)
		parts := make([]string, len(keys))
		for i, k := range keys {
			parts[i] = showBytes([]byte(k)) + "=" + showBytes(m[k])
		}
		return "hash:" + strings.Join(parts, ",")
	case *set.Set:
		ms := x.SMembers()
		sort.Strings(ms)
		parts := make([]string, len(ms))
		for i, k := range ms {
			parts[i] = showBytes([]byte(k))
		}
		return "set:" + strings.Join(parts, ",")
	case *zset.SortedSet:
		d := x.VerifDict()
		c := x.VerifChain()
		dp := make([]string, len(d))
		for i, it := range d {
			dp[i] = fmt.Sprintf("%s=%016x", showBytes([]byte(it.Member)), math.Float64bits(it.Score))
		}
		cp := make([]string, len(c))
		for i, it := range c {
			cp[i] = fmt.Sprintf("%s=%016x", showBytes([]byte(it.Member)), math.Float64bits(it.Score))
		}
		s := "zset:" + strings.Join(dp, ",") + "|" + strings.Join(cp, ",")
		if err := x.VerifCheck(); err != nil {
			s += " STRUCT-ERROR(" + err.Error() + ")"
		}
		return s
	}
	return "?"
}

func buildVal(typ string, args [][]byte) ds.Value {
	switch typ {
	case "str":
		s := str.NewString()
		if len(args) > 0 {
			s.Set(args[0])
		} else {
			s.Set([]byte{})
		}
		return s
	case "list":
		l := list.NewLinkedList()
		l.RPush(args...)
		return l
	case "hash":
		h := hash.NewHashMap()
		for i := 0; i+1 < len(args); i += 2 {
			h.HSet(string(args[i]), args[i+1])
		}
		return h
	case "set":
		s := set.NewSet()
		for _, a := range args {
			s.SAdd(string(a))
		}
		return s
	case "zset":
		z := zset.NewSortedSet()
		for i := 0; i+1 < len(args); i += 2 {
			var bits uint64
			for _, b := range args[i+1] {
				bits = bits<<8 | uint64(b)
			}
			z.ZAdd(string(args[i]), math.Float64frombits(bits))
		}
		return z
	}
	panic("bad type " + typ)
}

func codecOp(toks []string) (out string) {
	defer func() {
		if r := recover(); r != nil {
			out = fmt.Sprintf("P(%v)", r)
		}
	}()
	switch toks[0] {
	case "ck":
		name := mustArgs(toks[1:2])[0]
		exp, _ := strconv.ParseInt(toks[2], 10, 64)
		enc := ds.NewKey(string(name), exp).Encode()
		dec := "N"
		buf := append([]byte(nil), enc...)
		if k, err := ds.DecodeKey(buf); err == nil {
			dec = fmt.Sprintf("%s:%d", showBytes([]byte(k.Name)), k.Expiration)
			// the decoded key must not depend on the buffer it came from (Pebble recycles the
			// iterator's key buffer while the store keeps the decoded keys)
			for i := range buf {
				buf[i] ^= 0xA5
			}
			if after := fmt.Sprintf("%s:%d", showBytes([]byte(k.Name)), k.Expiration); after != dec {
				dec = dec + " ALIASED(" + after + ")"
			}
		}
		return fmt.Sprintf("enc=%s dec=%s", showBytes(enc), dec)
	case "dk":
		b := mustArgs(toks[1:2])[0]
		buf := append([]byte(nil), b...)
		k, err := ds.DecodeKey(buf)
		if err != nil {
			return "N"
		}
		out := fmt.Sprintf("%s:%d", showBytes([]byte(k.Name)), k.Expiration)
		for i := range buf {
			buf[i] ^= 0xA5
		}
		if after := fmt.Sprintf("%s:%d", showBytes([]byte(k.Name)), k.Expiration); after != out {
			out = out + " ALIASED(" + after + ")"
		}
		return out
	case "ev":
		v := buildVal(toks[1], mustArgs(toks[2:]))
		orig := compact(dumpVal(v))
		payload := v.GetValue()
		encShown := showBytes(payload)
		entry := storage.VerifEncodeEntry(v)
		buf := append([]byte(nil), entry...)
		dec := "P"
		func() {
			defer func() {
				if r := recover(); r != nil {
					dec = "P"
				}
			}()
			v2, err := storage.VerifDecodeEntry(buf)
			if err != nil {
				dec = "E"
				return
			}
			dec = compact(dumpVal(v2))
			// the decoded value must not depend on the buffer it came from
			for i := range buf {
				buf[i] ^= 0xA5
			}
			if after := compact(dumpVal(v2)); after != dec {
				dec = dec + " ALIASED(" + after + ")"
			}
		}()
		return fmt.Sprintf("orig=%s enc=%s dec=%s", orig, encShown, dec)
	}
	return "bad-op"
}
